#!/bin/sh
# Offline setup: byte-compile the framework, run engine self-tests, create output directories.
HERE="$(cd "$(dirname "$0")" && pwd)"
cd "$HERE" || exit 2
mkdir -p evidence replays
PYTHONHASHSEED=0 /venv/bin/python -W ignore -m compileall -q mc shims >/dev/null || exit 1
PYTHONHASHSEED=0 /venv/bin/python -W ignore -m mc.selftest || exit 1

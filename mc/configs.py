"""Shipped configurations: discovery, loading and building through the library's own factory."""
import copy
import glob
import os

from .boot import REPO


def config_files():
    files = sorted(glob.glob(os.path.join(REPO, 'yaml', '*.yaml')))
    return files


def packaged_files():
    return sorted(glob.glob(os.path.join(REPO, 'gym_gridverse', 'registered_envs', '*.yaml')))


def example_files():
    return [os.path.join(REPO, 'examples', 'coin_env.yaml')]


def short(path):
    return os.path.basename(path).replace('.yaml', '').replace('gv_', '')


def load(path):
    import yaml

    with open(path) as f:
        return yaml.safe_load(f)


def build(path_or_data):
    from gym_gridverse.envs.yaml.factory import factory_env_from_data

    data = load(path_or_data) if isinstance(path_or_data, str) else copy.deepcopy(path_or_data)
    return factory_env_from_data(data)


def all_configs(include_examples=False):
    out = [(short(f), f) for f in config_files()]
    if include_examples:
        out += [(short(f), f) for f in example_files()]
    return out


SMALL = ['crossing.5x5', 'dynamic_obstacles.5x5', 'empty.4x4', 'keydoor.5x5', 'memory.5x5', 'teleport.5x5']
MEDIUM = ['crossing.7x7', 'four_rooms.7x7', 'keydoor.7x7', 'memory_four_rooms.7x7', 'teleport.7x7', 'empty.8x8',
          'dynamic_obstacles.7x7']
LARGE = ['four_rooms.9x9', 'keydoor.9x9', 'memory.9x9', 'memory_four_rooms.9x9', 'memory_nine_rooms.10x10',
         'memory_nine_rooms.13x13', 'nine_rooms.10x10', 'nine_rooms.13x13']

"""Shared helpers for the observation properties (C05, C06, C07)."""
import itertools

from gym_gridverse.envs import observation_functions as OF
from gym_gridverse.geometry import Area

from . import refmodel as R
from . import universe as U
from .choice import ChoiceRng
from .desc import HIDDEN, NONE, mkstate, sdesc

DET_FUNCS = ['fully_transparent', 'partially_occluded', 'raytracing']
ALL_FUNCS = DET_FUNCS + ['stochastic_raytracing']
_fn = {}


def obs_fn(name, area):
    key = (name, area)
    if key not in _fn:
        _fn[key] = OF.factory(name, area=Area(*area))
    return _fn[key]


def observe(name, area, st, fill=0.5, rng=None):
    """sdesc of the observation, or ('EXC', type, text)"""
    try:
        return sdesc(obs_fn(name, area)(st, rng=rng if rng is not None else ChoiceRng([], random_fill=fill)))
    except Exception as e:  # noqa: BLE001
        return ('EXC', type(e).__name__, str(e)[:200])


def applicable(name, area):
    # partially_occluded documents that the agent must sit on the bottom row of the view
    return name != 'partially_occluded' or area[0][1] == 0


def area_shape(area):
    return (area[0][1] - area[0][0] + 1, area[1][1] - area[1][0] + 1)


def opaque_subsets(shape, kmax):
    cells = [(y, x) for y in range(shape[0]) for x in range(shape[1])]
    for k in range(0, min(kmax, len(cells)) + 1):
        for sub in itertools.combinations(cells, k):
            yield sub


def labelled_states(shape, kmax, held_items=(NONE,)):
    """every labelled grid of `shape` with <=kmax opaque cells x every pose x held"""
    for sub in opaque_subsets(shape, kmax):
        rows = U.labelled_grid(shape, set(sub))
        for y, x, h in U.poses(shape):
            for held in held_items:
                yield sub, (rows, y, x, h, held)


def check_sound(name, area, s, o):
    """C05 oracle on one observation descriptor o of state s; returns message or None"""
    if isinstance(o[0], str):
        return f'{name} raised {o[1]}: {o[2]}'
    rows, y, x, h, held = o
    (ymin, ymax), (xmin, xmax) = area
    if R.shape(rows) != area_shape(area):
        return f'observation shape {R.shape(rows)} != view shape {area_shape(area)}'
    if (y, x) != (-ymin, -xmin):
        return f'observation places the agent at {(y, x)}, view anchor is {(-ymin, -xmin)}'
    if h != 'F':
        return f'observation agent faces {h}, expected forward'
    if held != s[4]:
        return f'observation reports held item {held}, state holds {s[4]}'
    want = R.ref_view(s, area)
    for i, row in enumerate(rows):
        for j, c in enumerate(row):
            w = want[i][j]
            if c == HIDDEN:
                if name == 'fully_transparent' and w != HIDDEN:
                    return f'fully_transparent hides in-grid view cell {(i, j)}'
                continue
            if c != w:
                q = R.world_cell(s[1], s[2], s[3], ymin + i, xmin + j)
                return (f'view cell {(i, j)} shows {c[0]}{c[1:3]} but world cell {q} holds '
                        f'{w[0] + str(w[1:3]) if w != HIDDEN else "nothing (outside the grid)"}')
    return None

"""E3: breadth-first search of the reachable state graph whose transition relation is the real
GridWorld.functional_step, with every ChoiceRng resolution of every random pick as a branch."""
from collections import deque

from .choice import ChoiceRng, RecordingRng, explore
from .desc import hidden_fp, sdesc


def reset_outcomes(env, limit, max_dev=3):
    """initial states by exploring the reset function's choice tree.
    Returns (list of (choices, state), info) -- complete if the tree has <= limit leaves, otherwise the largest
    deviation bound d (<= max_dev) whose enumeration fits in `limit`."""

    def run(rng):
        env._rng = rng
        return env.functional_reset()

    out = []
    for choices, st, _ in explore(run, max_runs=limit + 1):
        out.append((choices, st))
        if len(out) > limit:
            break
    if len(out) <= limit:
        return out, {'complete': True, 'outcomes': len(out)}
    best, best_d = None, None
    for d in range(0, max_dev + 1):
        cur = []
        for choices, st, _ in explore(run, dev_bound=d, max_runs=limit + 1):
            cur.append((choices, st))
            if len(cur) > limit:
                break
        if len(cur) > limit:
            break
        best, best_d = cur, d
    return best, {'complete': False, 'dev_bound': best_d, 'outcomes': len(best)}


def real_seed_resets(env, seeds):
    """(seed, recorded script, state) using a recording proxy around numpy's Generator"""
    out = []
    for sd in seeds:
        rec = RecordingRng(sd)
        env._rng = rec
        st = env.functional_reset()
        out.append((sd, list(rec.script), st))
    return out


class Graph:
    def __init__(self):
        self.parent = {}  # key -> (parent key, action name, choices) ; roots -> None
        self.terminal = set()
        self.transitions = 0
        self.capped = False
        self.max_depth = 0

    def trace(self, key):
        path = []
        while self.parent.get(key) is not None:
            pk, a, ch = self.parent[key]
            path.append({'action': a, 'choices': ch})
            key = pk
        path.reverse()
        return key, path


def bfs(env, inits, on_state=None, on_edge=None, max_states=200000, actions=None, max_outcomes=4096,
        expand_terminal=False, key_fn=sdesc, action_filter=None, dev_bound=None, lineages=1):
    """inits: iterable of State.  on_state(key, state, graph) and on_edge(key, state, action, choices, key2,
    state2, reward, done, graph) may return a message (collected in the returned list as
    (key, action name, choices, message, lineage id of the source object))."""
    g = Graph()
    problems = []
    frontier = deque()
    depth = {}
    queued = {}  # key -> number of distinct objects (lineages) queued for expansion
    g.lineage = {}  # lineage id -> (parent lineage id | None, root key | None, action name, choices)
    next_id = [0]

    def new_id(parent, root, a, ch):
        next_id[0] += 1
        g.lineage[next_id[0]] = (parent, root, a, ch)
        return next_id[0]

    def ext(k, st):
        # the search key = canonical descriptor + any hidden per-object attribute (see desc.hidden_fp)
        h = hidden_fp(st)
        return k if not h else (k, h)

    for st in inits:
        k = key_fn(st)
        kk = ext(k, st)
        if kk not in g.parent:
            g.parent[kk] = None
            depth[kk] = 0
            queued[kk] = 1
            frontier.append((k, kk, st, new_id(None, k, None, None)))
            if on_state:
                m = on_state(k, st, g)
                if m:
                    problems.append((k, None, None, m, next_id[0]))
    actions = list(actions or env.action_space.actions)
    while frontier:
        k, kk, st, oid = frontier.popleft()  # kk was fixed when the object was queued (hooks may prime caches later)
        for a in (actions if action_filter is None else action_filter(k, actions)):

            def run(rng, st=st, a=a):
                env._rng = rng
                try:
                    return env.functional_step(st, a)
                except Exception as e:  # noqa: BLE001
                    return ('EXC', type(e).__name__, str(e)[:200])

            for choices, res, _ in explore(run, dev_bound=dev_bound, max_runs=max_outcomes):
                g.transitions += 1
                if isinstance(res[0], str):
                    problems.append((k, a.name, choices, f'step raised {res[1]}: {res[2]}', oid))
                    continue
                st2, reward, done = res
                k2 = key_fn(st2)
                if on_edge:
                    m = on_edge(k, st, a, choices, k2, st2, reward, done, g)
                    if m:
                        problems.append((k, a.name, choices, m, oid))
                kk2 = ext(k2, st2)
                if kk2 not in g.parent:
                    if len(g.parent) >= max_states:
                        g.capped = True
                        continue
                    g.parent[kk2] = (kk, a.name, choices)
                    depth[kk2] = depth[kk] + 1
                    g.max_depth = max(g.max_depth, depth[kk2])
                    if on_state:
                        m = on_state(k2, st2, g)
                        if m:
                            problems.append((k2, None, None, m, new_id(oid, None, a.name, choices)))
                if done:
                    g.terminal.add(kk2)
                # terminality belongs to the edge (bump_into_wall depends on (s, a)): a state is expanded as soon as
                # it is reached by some non-terminating edge.  `lineages` > 1 expands the same abstract state again
                # when it is reached through another history: objects keep whatever the implementation cached on them
                # along the way, so history-dependent behaviour (invisible to the canonical key) meets the same oracles
                if (not done or expand_terminal) and queued.get(kk2, 0) < lineages:
                    queued[kk2] = queued.get(kk2, 0) + 1
                    frontier.append((k2, kk2, st2, new_id(oid, None, a.name, choices)))
            if explore.capped:
                g.capped = True
    return g, problems


def lineage_trace(g, oid):
    """(root key, [(action, choices)...]) of the history that produced the object with this lineage id"""
    path = []
    while True:
        parent, root, a, ch = g.lineage[oid]
        if parent is None:
            path.reverse()
            return root, path
        path.append({'action': a, 'choices': ch})
        oid = parent


# ---------------------------------------------------------------- whole-configuration exploration
STATIC_TYPES = ('Wall', 'Exit', 'Door', 'Telepod', 'Beacon')


def scenery_key(key):
    rows = key[0]
    return tuple(tuple((o[0], o[2]) if o[0] in STATIC_TYPES else None for o in row) for row in rows)


def explore_configs(names, init_limit, max_states, make_hooks, max_dev=3, group_cap=None, lineages=1):
    """For each named shipped configuration: enumerate initial states (complete or deviation-bounded), group
    them by static scenery, BFS every group with the hooks from make_hooks(env, name) -> (on_state, on_edge).
    Returns (stats per config, problems) where a problem is a dict with a replayable trace."""
    from . import configs
    from .pool import pmap

    paths = dict(configs.all_configs(include_examples=False))

    def enum_inits(name):
        try:
            env = configs.build(paths[name])
            inits, info = reset_outcomes(env, init_limit, max_dev=max_dev)
        except Exception as e:  # noqa: BLE001 -- a shipped configuration that cannot be built / reset is a finding, not a crash
            return name, {'complete': False, 'dev_bound': 0, 'error': f'{type(e).__name__}: {e}'}, []
        groups = {}
        for choices, st in inits:
            k = sdesc(st)
            groups.setdefault(scenery_key(k), []).append((choices, st))
        return name, info, list(groups.values())

    enumerated = pmap(enum_inits, names)
    jobs = []
    stats = {}
    for name, info, groups in enumerated:
        stats[name] = dict(info, groups=len(groups), states=0, transitions=0, terminal=0, capped=False, max_depth=0,
                           initial_states=sum(len(g) for g in groups))
        if group_cap is not None and len(groups) > group_cap:
            stats[name]['groups_explored'] = group_cap
            stats[name]['capped'] = True
            groups = groups[:group_cap]
        for gi, grp in enumerate(groups):
            jobs.append((name, gi, grp))
    jobs.sort(key=lambda j: -len(j[2]))
    early = [{'config': name, 'reset_script': [], 'path': [], 'last_action': None, 'last_choices': None,
              'message': f'building the shipped configuration / its functional_reset raised {info["error"]}'}
             for name, info, _ in enumerated if info.get('error')]

    def run_group(job):
        name, gi, grp = job
        env = configs.build(paths[name])
        on_state, on_edge = make_hooks(env, name)
        root_script = {}
        states = []
        for choices, st in grp:
            k = sdesc(st)
            if k not in root_script:
                root_script[k] = choices
                states.append(st)
        g, problems = bfs(env, states, on_state=on_state, on_edge=on_edge, max_states=max_states, lineages=lineages)
        out = []
        for k, a, ch, msg, oid in problems[:5]:
            root, path = lineage_trace(g, oid)
            if a is None and path:
                # a state-invariant problem: the last step of the lineage leads to the offending state
                pass
            out.append({
                'config': name,
                'reset_script': root_script.get(root),
                'path': path,
                'last_action': a,
                'last_choices': ch,
                'message': msg,
            })
        return name, len(g.parent), g.transitions, len(g.terminal), g.capped, g.max_depth, len(problems), out

    results = pmap(run_group, jobs)
    problems = []
    for name, ns, nt, nterm, capped, depth, nprob, out in results:
        s = stats[name]
        s['states'] += ns
        s['transitions'] += nt
        s['terminal'] += nterm
        s['capped'] = s['capped'] or capped
        s['max_depth'] = max(s['max_depth'], depth)
        s['problems'] = s.get('problems', 0) + nprob
        problems.extend(out)
    return stats, early + problems


def replay_trace(case, make_hooks):
    """re-execute a recorded problem trace on a fresh environment; returns message if it still fails"""
    from gym_gridverse.action import Action

    from . import configs

    paths = dict(configs.all_configs())
    try:
        env = configs.build(paths[case['config']])
        on_state, on_edge = make_hooks(env, case['config'])
        env._rng = ChoiceRng(case['reset_script'] or [])
        st = env.functional_reset()
    except Exception as e:  # noqa: BLE001
        return f'building the shipped configuration / its functional_reset raised {type(e).__name__}: {e}'
    g = Graph()
    k = sdesc(st)
    msgs = []
    if on_state:
        m = on_state(k, st, g)
        if m:
            msgs.append(m)
    steps = list(case['path'])
    if case.get('last_action'):
        steps.append({'action': case['last_action'], 'choices': case['last_choices']})
    for step in steps:
        a = Action[step['action']]
        env._rng = ChoiceRng(step['choices'] or [])
        try:
            st2, reward, done = env.functional_step(st, a)
        except Exception as e:  # noqa: BLE001
            return f'step raised {type(e).__name__}: {e}'
        k2 = sdesc(st2)
        if on_edge:
            m = on_edge(k, st, a, step['choices'], k2, st2, reward, done, g)
            if m:
                msgs.append(m)
        if on_state:
            m = on_state(k2, st2, g)
            if m:
                msgs.append(m)
        k, st = k2, st2
    return msgs[-1] if msgs else None

"""Shared driver for checks over the built-in transition functions: executes real transition
functions (alone or chained) on states of the E1 universe with every ChoiceRng resolution."""
from functools import partial

from gym_gridverse.action import Action
from gym_gridverse.envs.transition_functions import transition_function_registry as TF

from . import universe as U
from .choice import ChoiceRng, explore
from .desc import mkstate, sdesc
from .pool import pmap

SINGLES = ['move_agent', 'turn_agent', 'actuate_door', 'actuate_box', 'pickndrop', 'teleport', 'move_obstacles']
CHAIN_NAV = ('move_agent', 'turn_agent')
CHAIN_OBST = ('move_agent', 'turn_agent', 'move_obstacles')
CHAIN_KEYDOOR = ('move_agent', 'turn_agent', 'actuate_door', 'pickndrop')
CHAIN_TELEPORT = ('move_agent', 'turn_agent', 'teleport')
CHAIN_FULL = ('move_agent', 'turn_agent', 'actuate_door', 'actuate_box', 'pickndrop', 'teleport', 'move_obstacles')
SHIPPED_CHAINS = [CHAIN_NAV, CHAIN_OBST, CHAIN_KEYDOOR, CHAIN_TELEPORT]
STOCHASTIC = {'teleport', 'move_obstacles'}

ACT = {a.name: a for a in Action}


def chain_fn(names):
    """the real callable for a tuple of registered names (single function, or the registered `chain`)"""
    names = tuple(names)
    if len(names) == 1:
        return TF[names[0]]
    return partial(TF['chain'], transition_functions=[TF[n] for n in names])


def execute(fn, s, action, script=()):
    """run `fn` in place on a fresh state built from descriptor s; returns (result, rng) where result is
    the successor descriptor or ('EXC', type name, text)"""
    st = mkstate(s)
    rng = ChoiceRng(script)
    try:
        fn(st, ACT[action], rng=rng)
    except Exception as e:  # noqa: BLE001 -- any exception is an observation here
        return ('EXC', type(e).__name__, str(e)[:200]), rng
    return sdesc(st), rng


def outcomes(fn, s, action, max_runs=5000, via_copy=False):
    """[(choices, result)] for every resolution of the random picks (complete unless capped).
    via_copy=True runs the library's non-in-place utility transition_with_copy on the built state (and also demands
    that the input state is left unchanged) instead of the in-place call."""
    from gym_gridverse.envs.transition_functions import transition_with_copy

    out = []

    def run(rng):
        st = mkstate(s)
        try:
            if via_copy:
                st2 = transition_with_copy(fn, st, ACT[action], rng=rng)
                if sdesc(st) != s:
                    return ('EXC', 'InputModified', 'transition_with_copy modified its input state')
                return sdesc(st2)
            fn(st, ACT[action], rng=rng)
        except Exception as e:  # noqa: BLE001
            return ('EXC', type(e).__name__, str(e)[:200])
        return sdesc(st)

    for choices, res, _ in explore(run, max_runs=max_runs):
        out.append((choices, res))
    return out, explore.capped


def blamed(names, relevant, s, action):
    """an exception in a chain is attributed to the functions `relevant` to a property only if the chain restricted
    to those functions still raises (other exceptions are totality failures decided by C01)"""
    sub = tuple(n for n in names if n in relevant)
    if not sub:
        return False
    outs, _ = outcomes(chain_fn(sub), s, action, max_runs=64)
    return any(is_exc(r) for _, r in outs)


def is_exc(res):
    return isinstance(res, tuple) and len(res) == 3 and res[0] == 'EXC'


from . import reps as _reps  # noqa: E402,F401 -- registers the harness-defined grid-object types

# ---------------------------------------------------------------- universe sweep
SIGMAS = {
    'full': U.sigma_full(),
    'reduced': U.sigma_reduced(),
    # 5-symbol alphabets for the two-deviation layer of the quick tier, one per property focus
    'kin5': [U.WALL, U.door(2, U.C1), U.door(0, U.C1), U.box(U.key(U.C1)), U.telepod(U.C1)],
    'obj5': [U.WALL, U.OBST, U.key(U.C1), U.box(U.key(U.C1)), U.telepod(U.C1)],
    'door5': [U.WALL, U.door(2, U.C1), U.door(1, U.C2), U.key(U.C1), U.box(U.box(U.key(U.C1)))],
    'door0': [U.door(2, 0), U.door(1, 0), U.key(0), U.door(2, U.C1)],
    'tele2': [U.telepod(U.C1), U.telepod(U.C2)],
    'rew5': [U.WALL, U.exit_(0), U.OBST, U.key(U.C1), U.door(1, U.C1)],
    # user-defined types (registered by mc.reps): a holdable that is not a Key, a subclass of Key, next to the library's own
    'custom4': [('VerifPlain0', 0, 0, None), ('VerifSubKey', 0, U.C1, None), U.key(U.C1), U.WALL],
}
HELDS = {'key0': [U.NONE, U.key(0), U.key(U.C1), U.beacon(0)], 'full': U.HELD_FULL, 'small': U.HELD_SMALL, 'two': [U.NONE, U.key(U.C1)], 'none': [U.NONE],
         'custom': [U.NONE, ('VerifPlain1', 0, 0, None), U.key(U.C1)]}


def sweep(plan, worker_fn, nshards=64):
    """plan: list of dict(shape, sigma, k, held, chains, actions).  The grids of each plan entry are split
    into interleaved shards; worker_fn(entry, grid_iter) -> result; returns list of results."""
    jobs = []
    for entry in plan:
        n = U.count_grids(entry['shape'], len(SIGMAS[entry['sigma']]), entry['k'])
        work = (n * entry['shape'][0] * entry['shape'][1] * 4 * len(HELDS[entry['held']])
                * len(entry['chains']) * len(entry['actions'])) * entry.get('cost', 1)
        parts = max(1, min(n, work // 60000 + 1))
        for i in range(parts):
            jobs.append((entry, i, parts))

    def run(job):
        entry, i, parts = job
        stats, fails, samples = worker_fn(entry, shard_iter(entry, i, parts))
        for f in fails:
            f['job'] = job_spec(entry, i, parts)
        return stats, fails, samples

    # largest jobs first for balance; every job runs in a freshly forked process (see pool.pmap)
    jobs.sort(key=lambda j: -U.count_grids(j[0]['shape'], len(SIGMAS[j[0]['sigma']]), j[0]['k']) / j[2])
    return pmap(run, jobs, fresh=True)


def shard_iter(entry, i, parts):
    return (
        g
        for j, g in enumerate(U.grids(tuple(entry['shape']), SIGMAS[entry['sigma']], entry['k']))
        if j % parts == i and (not entry.get('only_k') or nonfloor(g) == entry['only_k'])
    )


def job_spec(entry, i, parts):
    e = {k: v for k, v in entry.items()}
    e['chains'] = [list(c) for c in entry['chains']]
    return {'entry': e, 'i': i, 'parts': parts}


def rerun_job(spec, worker_fn):
    """re-execute one exploration job (same cases, same order) in this process; returns its list of failures"""
    entry = dict(spec['entry'])
    entry['shape'] = tuple(entry['shape'])
    entry['chains'] = [tuple(c) for c in entry['chains']]
    return worker_fn(entry, shard_iter(entry, spec['i'], spec['parts']))[1]


def same_case(f, g):
    from .desc import tup

    keys = [k for k in ('kind', 'names', 's', 'a', 'area', 'name', 'pattern', 'origin', 'args', 'seq', 'params', 'script') if k in f]
    return all(tup(f.get(k)) == tup(g.get(k)) for k in keys)


def replay_job(case, worker_fn):
    for g in rerun_job(case['job'], worker_fn):
        if same_case(case['inner'], g):
            return g.get('message', 'fails again')
    return None


def standard_plan(tier, chains_lo, chains_hi=None, held_lo='small', held_hi='two', actions=None, sigma_hi='reduced',
                  quick_hi_max_cells=9):
    """the default universe for the dynamics properties: (i) every grid with <=1 non-floor cell over the full
    alphabet with the full chain list; (ii) grids with exactly 2 (thorough: also 3) non-floor cells with the
    reduced chain list chains_hi"""
    from .refmodel import ACTIONS

    actions = actions or ACTIONS
    chains_hi = chains_hi or chains_lo
    plan = []
    if tier == 'quick':
        for sh in U.SHAPES_SMALL:
            plan.append(dict(shape=sh, sigma='full', k=1, held=held_lo, chains=chains_lo, actions=actions))
            if sh[0] * sh[1] <= quick_hi_max_cells:
                plan.append(dict(shape=sh, sigma=sigma_hi, k=2, held=held_hi, chains=chains_hi, actions=actions, only_k=2))
    else:
        # (the originally planned thorough universe - full alphabet for two deviations up to 9 cells - takes hours per check;
        # this one is about four times the quick universe)
        for sh in U.SHAPES_MID:
            n = sh[0] * sh[1]
            plan.append(dict(shape=sh, sigma='full', k=1, held=held_lo, chains=chains_lo, actions=actions))
            if n <= 4:
                plan.append(dict(shape=sh, sigma='full', k=2, held=held_hi, chains=chains_hi, actions=actions, only_k=2))
            elif n <= 6:
                plan.append(dict(shape=sh, sigma='reduced', k=2, held=held_hi, chains=chains_hi, actions=actions, only_k=2))
            elif n <= 12:
                plan.append(dict(shape=sh, sigma=sigma_hi, k=2, held=held_hi, chains=chains_hi, actions=actions, only_k=2))
            if n <= 4:
                plan.append(dict(shape=sh, sigma=sigma_hi, k=3, held=held_hi, chains=chains_hi, actions=actions, only_k=3))
    return plan


def describe_plan(plan):
    return [
        {'shape': list(e['shape']), 'alphabet': e['sigma'], 'nonfloor_cells': (e.get('only_k') or f"<={e['k']}"),
         'held_items': e['held'], 'functions_or_chains': len(e['chains'])}
        for e in plan
    ]


def nonfloor(rows):
    return sum(1 for r in rows for o in r if o[0] != 'Floor')


def simplicity(case):
    s = case.get('s')
    if not s:
        return (0, 0, 0)
    rows = s[0]
    return (nonfloor(rows), len(rows) * len(rows[0]), len(case.get('names', ())))


def report_fails(rep, fails, replay, limit_per_sig=2, job_runner=None, job_replayer=None):
    """sort failing cases simplest-first, re-execute each, report (at most limit_per_sig replays per signature).
    A case that fails in its exploration job but not in isolation is re-run together with the job's preceding cases
    (job_runner(spec) -> failures): if it fails again there, the behaviour depends on earlier calls in the process -
    reported as a violation whose replay is the whole job."""
    from .desc import show

    fails = sorted(fails, key=simplicity)
    per_sig = {}
    job_cache = {}
    for f in fails:
        f = dict(f)
        msg = f.pop('message')
        job = f.pop('job', None)
        wjob = f.pop('wjob', None)
        key = repr(sorted(f.get('sig', {}).items()))
        per_sig[key] = per_sig.get(key, 0) + 1
        if per_sig[key] > limit_per_sig:
            rep.add('further_cases_same_signature')
            e = rep.match_known(f)
            if e is not None:
                rep.known_hits[e['id']] = rep.known_hits.get(e['id'], 0) + 1
            continue
        extra = f" | state: {show(f['s'])}" if f.get('s') else ''
        again = replay(f)
        if again:
            rep.violation(f, msg + extra)
            continue
        if job is not None and job_runner is not None:
            jk = repr(job)
            if jk not in job_cache:
                job_cache[jk] = job_runner(job)
            if any(same_case(f, g) for g in job_cache[jk]):
                rep.violation({'kind': 'job', 'job': job, 'inner': f, 'sig': dict(f.get('sig', {}), history_dependent=True)},
                              msg + extra + ' [fails only after the preceding cases of its exploration job, not in isolation: '
                              'the answer depends on earlier calls in the same process]')
                continue
        if job is not None and job_replayer is not None:
            # job_replayer(case) re-runs the job in a brand-new interpreter and says whether the inner case fails again
            case = {'kind': 'job', 'job': job, 'inner': f, 'sig': dict(f.get('sig', {}), history_dependent=True)}
            if job_replayer(case):
                rep.violation(case, msg + extra + ' [fails only after the preceding cases of its exploration job, not in '
                              'isolation: the answer depends on earlier calls in the same process]')
                continue
        # this (parent) process has itself replayed other cases and imported / primed things: the decisive re-executions run
        # in a brand-new interpreter - (1) the case alone, (2) the sweep job it came from, (3) the whole worker job
        from .pool import replay_in_new_interpreter
        from .report import jsonable
        plain = jsonable(f)
        if replay_in_new_interpreter(rep.pid, plain):
            rep.violation(f, msg + extra + ' [reproduced in a new interpreter; not in the process that ran the exploration, whose '
                          'library state had been touched by other cases]')
            continue
        done = False
        for kind, spec in (('job', job), ('wjob', wjob)):
            if spec is None:
                continue
            case = {'kind': kind, kind: jsonable(spec), 'inner': plain, 'sig': dict(f.get('sig', {}), history_dependent=True)}
            if replay_in_new_interpreter(rep.pid, case):
                rep.violation(case, msg + extra + ' [fails only after the cases that ran before it in its exploration job (re-run as '
                              'a whole in a new interpreter), not in isolation: the answer depends on earlier calls in the process]')
                done = True
                break
        if done:
            continue
        if wjob is not None:
            # last resort for failures that depend on the allocator (object addresses reused as cache keys ...): the whole worker
            # job again in a freshly forked child of THIS process - the closest reconstruction of the original worker - and
            # twice more in new interpreters
            import importlib
            from .pool import run_fresh
            mod = importlib.import_module(f'mc.checks.{rep.pid.lower()}')
            case = {'kind': 'wjob', 'wjob': jsonable(wjob), 'inner': plain, 'sig': dict(f.get('sig', {}), history_dependent=True)}
            hit = run_fresh(lambda c: replay_wjob(mod, c), case) or replay_in_new_interpreter(rep.pid, case) or \
                replay_in_new_interpreter(rep.pid, case)
            if hit:
                rep.violation(case, msg + extra + ' [reproduced by re-running its whole exploration job; the failure depends on the '
                              'process history and is not reproduced by every re-execution (allocator-dependent)]')
                continue
        raise SystemExit(f'INTERNAL: violation did not reproduce on re-execution: {msg}')


def pmap_w(worker_name, fn, jobs, fresh=True):
    """pmap over complete worker jobs, each in a freshly forked process (so that the job IS the process history of whatever it
    reports), with every failure dict in the results tagged with (worker name, job) for the whole-job replay"""
    from .pool import pmap
    jobs = list(jobs)
    results = pmap(fn, jobs, fresh=fresh)
    for job, res in zip(jobs, results):
        for part in (res if isinstance(res, tuple) else (res,)):
            if isinstance(part, list) and part and all(isinstance(x, dict) and 'message' in x for x in part):
                tag_wjob(part, worker_name, job)
    return results


def tag_wjob(fails, worker_name, job):
    """annotate the failures a worker returned with the worker's name and its complete job (the process history)"""
    for f in fails:
        if isinstance(f, dict):
            f.setdefault('wjob', [worker_name, job])
    return fails


def replay_wjob(mod, case):
    """re-run one complete worker job (in this - new - interpreter) and look for the inner case among its failures"""
    from .desc import tup
    name, job = case['wjob']
    res = mod.WORKERS[name](tup(job))
    found = []
    for part in (res if isinstance(res, tuple) else (res,)):
        if isinstance(part, list) and part and all(isinstance(x, dict) and 'message' in x for x in part):
            found.extend(part)
    inner = case['inner']
    for g in found:
        if same_case(inner, g):
            return g['message']
    strip = lambda sg: {k: v for k, v in (sg or {}).items() if k != 'history_dependent'}  # noqa: E731
    for g in found:
        if strip(g.get('sig')) == strip(inner.get('sig')):
            return g['message']
    return None


def make_worker(judge, state_law=None, uses_held=None):
    """generic universe worker.  judge(names, s, a) -> (n_executions, nontrivial: bool, message|None, sig dict).
    state_law(s) -> message|None is evaluated once per (grid, pose) with the first held item.
    uses_held(names) -> bool: enumerate held items for this chain (otherwise only the first one)."""
    from .universe import poses

    def worker(entry, grid_iter):
        stats = {'states': 0, 'exec': 0, 'cases': 0, 'nontrivial': 0}
        fails = []
        samples = []
        helds = HELDS[entry['held']]
        for rows in grid_iter:
            for y, x, h in poses(entry['shape']):
                for held in helds:
                    s = (rows, y, x, h, held)
                    stats['states'] += 1
                    if state_law is not None and held == helds[0]:
                        m = state_law(s)
                        stats['cases'] += 1
                        if m and len(fails) < 6:
                            fails.append({'kind': 'state_law', 's': s, 'message': m, 'sig': {'law': 'state'}})
                    for names in entry['chains']:
                        if held != helds[0] and uses_held is not None and not uses_held(names):
                            continue
                        for a in entry['actions']:
                            n, nt, m, sig = judge(names, s, a)
                            stats['exec'] += n
                            stats['cases'] += 1
                            if nt:
                                stats['nontrivial'] += 1
                                if len(samples) < 2 and nonfloor(rows) == entry['k']:
                                    samples.append({'kind': 'step', 'names': names, 's': s, 'a': a})
                            if m and len(fails) < 6:
                                fails.append({'kind': 'step', 'names': names, 's': s, 'a': a, 'message': m,
                                              'sig': dict(sig, fn='+'.join(names))})
        return stats, fails, samples

    return worker


def run_universe(rep, plan, worker, replay):
    rep.bounds['universe'] = describe_plan(plan)
    results = sweep(plan, worker)
    tot = {'states': 0, 'exec': 0, 'cases': 0, 'nontrivial': 0}
    allfails = []
    for stats, fails, samples in results:
        for k in tot:
            tot[k] += stats[k]
        for smp in samples:
            rep.sample(smp, limit=5)
        allfails.extend(fails)
    report_fails(rep, allfails, replay, job_runner=lambda spec: rerun_job(spec, worker))
    rep.part('universe', **tot)
    return tot


def front_class(s):
    """where the front cell of the agent is: 'outside' the grid or 'inside'"""
    from . import refmodel as R

    return 'inside' if R.inside(s[0], R.front(s[1], s[2], s[3])) else 'outside'


def run_reach(rep, names, init_limit, max_states, make_hooks, replay, invariant, group_cap=None, lineages=1):
    from . import reach

    stats, problems = reach.explore_configs(names, init_limit, max_states, make_hooks, group_cap=group_cap, lineages=lineages)
    rs = rt = 0
    for name, s in stats.items():
        rs += s['states']
        rt += s['transitions']
        if s['capped'] or not s.get('complete'):
            how = 'all reset outcomes' if s.get('complete') else f"reset outcomes with <={s.get('dev_bound')} non-default draws"
            rep.cap(f"{name}: {how}{', state/group cap hit' if s['capped'] else ''}")
    rep.part('reachable', configs=stats, states=rs, transitions=rt, lineages_expanded_per_state=lineages)
    seen_sig = {}
    for p in problems:
        case = dict(p, kind='reach', sig={'config': p['config'], 'invariant': invariant})
        msg = case.pop('message')
        key = (p['config'], msg.split(':')[0])
        seen_sig[key] = seen_sig.get(key, 0) + 1
        if seen_sig[key] > 2:
            continue
        if replay(case):
            rep.violation(case, f"{p['config']}: {msg} (after {len(p['path'])} steps from reset script {p['reset_script']})")
        else:
            raise SystemExit(f'INTERNAL: reachability violation did not reproduce: {msg}')
    if names:
        rep.sample({'kind': 'reach', 'config': names[0], 'reset_script': [],
                    'path': [{'action': 'MOVE_FORWARD', 'choices': []}]}, limit=6)
    return rs, rt

"""Engine self-tests run by setup.sh (ChoiceRng vs numpy, YAML shim round trip, reference transform)."""
import glob
import os
import sys


def main():
    from . import boot

    boot.boot()
    from . import choice

    n = choice.selftest()
    print(f'selftest: ChoiceRng/RecordingRng conformance with numpy on {n} seeds ok')
    import yaml

    files = sorted(glob.glob(os.path.join(boot.REPO, 'yaml', '*.yaml'))) + [
        os.path.join(boot.REPO, 'examples', 'coin_env.yaml')
    ]
    if getattr(yaml, 'IS_VERIF_SHIM', False):
        for f in files:
            d = yaml.safe_load(open(f))
            assert yaml.safe_load(yaml.safe_dump(d)) == d, f
        for bad in ('a: {b: 1}', 'a: &x 1', 'a: |\n  text', '- a\n  b: 1', 'a: 1\na: 2', '\ta: 1'):
            try:
                yaml.safe_load(bad)
            except yaml.YAMLError:
                pass
            else:
                raise AssertionError(f'shim accepted unsupported YAML {bad!r}')
        print(f'selftest: YAML shim round trip on {len(files)} shipped files ok (PyYAML absent)')
    else:
        print('selftest: real PyYAML present, shim not used')
    from . import refmodel as R
    from .desc import mkstate, sdesc

    # reference transform vs brute force table for one labelled grid
    s = ((((('Floor', 0, 0, None), ('Wall', 0, 0, None)), (('Key', 0, 1, None), ('Exit', 0, 0, None)))), 1, 0, 'R', ('NoneGridObject', 0, 0, None))
    assert sdesc(mkstate(s)) == s
    assert R.world_cell(1, 0, 'R', -1, 0) == (1, 1) and R.world_cell(1, 0, 'R', 0, 1) == (2, 0)
    r = s
    for _ in range(4):
        r = R.rotate_world_cw(r)
    assert r == s
    print('selftest: descriptors / reference geometry ok')
    return 0


if __name__ == '__main__':
    sys.exit(main())

"""C07 -- observations are egocentric: invariant under rotating the whole world.

Labelled grids with opaque subsets on all shapes H,W in 1..4 (non-square included) x every pose x view areas
x {fully_transparent, partially_occluded, raytracing}: obs(rho^k . s) == obs(s) for the three non-trivial
quarter turns, where the world rotation rho is harness index arithmetic (not Grid.__mul__).
"""
from .. import dyn
from .. import obs as O
from .. import refmodel as R
from .. import universe as U
from ..desc import NONE, mkstate, tup
from ..pool import pmap


def judge(s, area, name, inplace=True):
    base = O.observe(name, area, mkstate(s))
    if isinstance(base[0], str):
        return 1, None  # exceptions are C01/C05 business; nothing to compare
    r = s
    vshape = O.area_shape(area)
    for k in (1, 2, 3):
        r = R.rotate_world_cw(r)
        st_r = mkstate(r)
        o = O.observe(name, area, st_r)
        if (inplace or R.shape(r[0]) in (vshape, vshape[::-1])) and o == base:
            # (views that cover exactly the world are a boundary case of the slicing: look twice)
            o = O.observe(name, area, st_r)
            if o != base:
                return k + 1, (f'{name} area {area}: the world rotated by {k} quarter turn(s) is shown like the original at the first '
                               f'look and differently at a second look at the same state object')
        if o != base:
            if isinstance(o[0], str):
                return k + 1, f'{name} area {area}: raises {o[1]} after rotating the world by {k} quarter turns'
            diff = [(i, j) for i, row in enumerate(base[0]) for j, c in enumerate(row)
                    if R.shape(o[0]) != R.shape(base[0]) or o[0][i][j] != c]
            return k + 1, (f'{name} area {area}: observation changes after rotating the world by {k} clockwise quarter '
                           f'turn(s) (agent {(s[1], s[2], s[3])} -> {(r[1], r[2], r[3])}); differing view cells {diff[:4]}')
    if not inplace:
        return 4, None
    # the same state OBJECT, moved/turned in place to the rotated pose's heading, must be observed like a fresh state
    from gym_gridverse.geometry import Position as _P
    from ..desc import ORI as _ORI

    st = mkstate(s)
    O.observe(name, area, st)
    for h2 in ('R', 'B', 'L', 'F'):
        st.agent.orientation = _ORI[h2]
        s2 = (s[0], s[1], s[2], h2, s[4])
        if O.observe(name, area, st) != O.observe(name, area, mkstate(s2)):
            return 5, (f'{name} area {area}: after turning the same state object in place to heading {h2} its observation differs '
                       f'from that of a freshly built equal state')
    H, W = R.shape(s[0])
    # an object of the observed state changes its opacity in place (a door is written into a cell, then opened, locked,
    # closed through its own attribute - what actuate_door does): the state object is observed like its freshly built
    # rotations, i.e. like a freshly built equal state
    from gym_gridverse.grid_object import Door as _Door
    from ..desc import mk as _mk, sdesc as _sdesc
    st.agent.orientation = _ORI[s[3]]
    tgt = R.world_cell(s[1], s[2], s[3], -1, 0)
    if not R.inside(s[0], tgt):
        tgt = next(((y, x) for y in range(H) for x in range(W) if (y, x) != (s[1], s[2])), None)
    if tgt is not None:
        st.grid[_P(*tgt)] = _mk(U.door(1, 3))
        for status in (None, _Door.Status.OPEN, _Door.Status.LOCKED, _Door.Status.CLOSED, _Door.Status.OPEN):
            if status is not None:
                st.grid[_P(*tgt)].state = status
            if O.observe(name, area, st) != O.observe(name, area, mkstate(_sdesc(st))):
                return 6, (f'{name} area {area}: after a door at {tgt} of the same state object was '
                           f'{"written into the grid" if status is None else "set to " + status.name + " in place"}, the observation '
                           f'differs from that of a freshly built equal state (and of its rotations)')
    st.agent.position = _P((s[1] + 1) % H, (s[2] + 1) % W)
    st.agent.orientation = _ORI['F']
    if O.observe(name, area, st) != O.observe(name, area, mkstate(_sdesc(st))):
        return 6, f'{name} area {area}: after moving the same state object in place its observation differs from a fresh equal state'
    return 6, None


def _work(job):
    shape, kmax, i, parts, areas_ft, areas_occl = job
    mine = [(sub, s) for j, (sub, s) in enumerate(O.labelled_states(shape, kmax)) if j % parts == i]
    n = cases = 0
    fails = []
    # every deterministic function, in the registry order and then again in the opposite order (an observation cached by one
    # function must not leak into another's)
    for name in O.DET_FUNCS + ['partially_occluded', 'fully_transparent']:
        for area in (areas_ft if name == 'fully_transparent' else areas_occl):
            if not O.applicable(name, area):
                continue
            for sub, s in mine:
                if sub and name == 'fully_transparent':
                    continue
                k, m = judge(s, area, name, inplace=(not sub and (s[1] + s[2]) % 2 == 0))
                n += k
                cases += 1
                if m and len(fails) < 3:
                    fails.append({'kind': 'rot', 's': s, 'area': area, 'name': name, 'message': m,
                                  'sig': {'fn': name, 'square': shape[0] == shape[1]}})
    from . import c05
    for sub, s in mine:
        if sub or (s[1] + s[2]) % 2:
            continue
        for area in areas_occl[::9]:
            names = [nm for nm in O.DET_FUNCS if O.applicable(nm, area)]
            k, m, name = c05.judge_mutate(s, area, names)
            n += k
            if m and len(fails) < 3:
                fails.append({'kind': 'mutate', 's': s, 'area': area, 'names': names, 'message': m + ' (so the state object and its '
                              'freshly built rotations are observed differently)', 'sig': {'fn': name, 'part': 'mutate'}})
    sample = {'kind': 'rot', 's': mine[-1][1], 'area': areas_occl[3], 'name': 'raytracing'} if mine else None
    return n, len(mine), cases, fails, sample


def pattern_world(shape):
    """worlds too large for pairwise distinct labels: a position-dependent pattern without small periods"""
    h, w = shape
    labels = [d for d in U.LABELS_T if d[0] != 'Box']
    return tuple(tuple(labels[(y * 7 + x * 3 + y // 5 + (x * y) % 11) % len(labels)] for x in range(w)) for y in range(h))


BIG_WORLDS = [((3, 12), 1), ((2, 40), 1), ((9, 9), 1), ((12, 12), 5), ((1, 70), 1)]
BIG_AREAS_FT = [((-1, 1), (-1, 1)), U.SHIPPED_AREA, ((-1, 0), (-3, 3)), ((-9, 0), (-5, 4)), ((-10, 0), (-5, 5)), ((-8, 0), (-6, 6)),
                ((-2, 0), (-9, 9))]
BIG_AREAS_OCCL = [((-1, 1), (-1, 1)), U.SHIPPED_AREA, ((-1, 0), (-3, 3))]


def _big_work(job):
    shape, stride, part, parts = job
    rows = pattern_world(shape)
    n = cases = 0
    fails = []
    H, W = shape
    poses = [(y, x, h) for y in range(H) for x in range(W) if (y * W + x) % stride == 0 for h in 'FRBL']
    for i, (y, x, h) in enumerate(poses):
        if i % parts != part:
            continue
        s = (rows, y, x, h, NONE)
        for name, areas in (('fully_transparent', BIG_AREAS_FT), ('raytracing', BIG_AREAS_OCCL), ('partially_occluded', BIG_AREAS_OCCL)):
            for area in areas:
                if not O.applicable(name, area):
                    continue
                k, m = judge(s, area, name, inplace=False)
                n += k
                cases += 1
                if m and len(fails) < 2:
                    fails.append({'kind': 'rot_big', 'shape': list(shape), 'pose': [y, x, h], 'area': area, 'name': name, 'message':
                                  f'{shape[0]}x{shape[1]} pattern world, agent {(y, x, h)}: {m}', 'sig': {'fn': name, 'part': 'big_worlds'}})
    return n, len(poses) // parts, cases, fails, None


def replay(case):
    if case['kind'] == 'rot_big':
        y, x, h = case['pose']
        return judge((pattern_world(tuple(case['shape'])), y, x, h, NONE), tup(case['area']), case['name'], inplace=False)[1]
    if case['kind'] == 'mutate':
        from . import c05
        return c05.judge_mutate(tup(case['s']), tup(case['area']), case['names'])[1]
    return judge(tup(case['s']), tup(case['area']), case['name'])[1]


def run(rep, tier, seed):
    full = U.areas() + [U.SHIPPED_AREA]
    if tier == 'quick':
        occl = U.areas(ymins=(-3, -2, 0), ymaxs=(0, 1, 2), xmins=(-3, -1, 0), xmaxs=(0, 1, 3)) + [U.SHIPPED_AREA]
        areas_ft = full
    else:
        occl = areas_ft = full
    maxdim = 4 if tier == 'quick' else 5
    shapes = [(h, w) for h in range(1, maxdim + 1) for w in range(1, maxdim + 1)]
    jobs, plan = [], []
    for sh in shapes:
        n = sh[0] * sh[1]
        kmax = (1 if n > 6 else 2) if tier == 'quick' else (3 if n <= 4 else 2 if n <= 9 else 1)
        plan.append({'shape': list(sh), 'max_opaque_cells': kmax})
        cnt = sum(1 for _ in O.opaque_subsets(sh, kmax)) * n * 4
        parts = max(1, min(64, cnt // 40))
        for i in range(parts):
            jobs.append((sh, kmax, i, parts, areas_ft, occl))
    rep.bounds = {'shapes': plan, 'areas_fully_transparent': len(areas_ft), 'areas_occluding': len(occl),
                  'functions': O.DET_FUNCS, 'rotations': '1, 2, 3 clockwise quarter turns'}
    tot = [0, 0, 0]
    fails = []
    big_jobs = [(sh, stride, part, 8) for sh, stride in BIG_WORLDS for part in range(8)]
    rep.bounds['big_worlds'] = {'worlds': [list(sh) for sh, _ in BIG_WORLDS], 'areas_fully_transparent': len(BIG_AREAS_FT),
                                'areas_occluding': len(BIG_AREAS_OCCL), 'largest_view_cells': 121}
    for n, states, cases, fl, sample in dyn.pmap_w('big', _big_work, big_jobs) + dyn.pmap_w('work', _work, jobs):
        tot[0] += n
        tot[1] += states
        tot[2] += cases
        fails.extend(fl)
        if sample:
            rep.sample(sample, limit=3)
    dyn.report_fails(rep, fails, replay)
    return rep.finish(
        states=tot[1] * 4,
        transitions=tot[0],
        validated=tot[0],
        evaluations=tot[0],
        distinct_nontrivial=tot[2],
        rule='case = (labelled grid with opaque subset, pose, area, function) compared across its 4 rotated copies; '
        'states counts the rotated copies; every case is non-trivial (non-square shapes and asymmetric areas included)',
    )


WORKERS = {'big': _big_work, 'work': _work}

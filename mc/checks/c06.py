"""C06 -- hidden cells carry no information; occlusion is monotone.

(a) visibility level: EVERY Wall/Floor pattern of small views, for partially_occluded (agent anywhere on the
    bottom row) and raytracing (every origin): origin visible; every visible cell is linked to the origin by a
    chain of adjacent transparent visible cells (reference flood fill); making a visible opaque cell
    transparent never hides a visible cell.
(b) observation level: every Wall/Floor world 2x3, 3x2, 3x3 (thorough 3x4, 4x3) x agent on every floor cell x
    headings x areas: replacing any world cell that is reported Hidden or lies outside the view leaves the
    observation unchanged.
(c) stochastic variant: scripted extreme draws bound every outcome: the maximal set equals the deterministic
    ray-traced set, the minimal set is exactly the cells every ray reaches lit; real seeds lie in between.
"""
import itertools

import numpy as np

from gym_gridverse.envs.visibility_functions import visibility_function_registry as VF
from gym_gridverse.geometry import Area, Position
from gym_gridverse.grid import Grid
from gym_gridverse.grid_object import Box, Color, Door, Floor, Key, MovingObstacle, Wall
from gym_gridverse.utils.raytracing import compute_rays_fancy

from .. import dyn
from .. import obs as O
from .. import refmodel as R
from .. import universe as U
from ..choice import ChoiceRng
from ..desc import FLOOR, HIDDEN, NONE, WALL, mkstate, tup
from ..pool import pmap


def grid_of(pattern, h, w, style='wall'):
    """style 'wall': opaque = Wall, transparent = Floor; 'door': opaque = closed Door, transparent = open Door (same
    object type everywhere, opacity carried by the status only); 'mixed': alternate the two encodings cell by cell"""
    def cell(y, x):
        opaque = pattern >> (y * w + x) & 1
        use_door = style == 'door' or (style == 'mixed' and (y + x) % 2 == 0)
        if style == 'solid':
            # transparent cells that are not walkable (a box), opaque cells as walls: sight is about blocks_vision only
            return Wall() if opaque else Box(Floor())
        if style == 'items':
            return Wall() if opaque else (Key(Color.RED) if (y + x) % 2 else MovingObstacle())
        if use_door:
            return Door(Door.Status.CLOSED if opaque else Door.Status.OPEN, Color.RED)
        return Wall() if opaque else Floor()

    return Grid([[cell(y, x) for x in range(w)] for y in range(h)])


def vis_mask(name, pattern, h, w, origin, style='wall', **kw):
    arr = VF[name](grid_of(pattern, h, w, style), Position(*origin), **kw)
    arr = np.asarray(arr)
    if arr.shape != (h, w):
        raise ValueError(f'visibility shape {arr.shape}')
    m = 0
    for y in range(h):
        for x in range(w):
            if arr[y, x]:
                m |= 1 << (y * w + x)
    return m


def linked(pattern, vis, h, w, origin):
    """reference flood fill: cells reachable from the origin through visible transparent cells (8-adjacency)"""
    o = origin[0] * w + origin[1]
    L = 1 << o
    stack = [origin]
    while stack:
        y, x = stack.pop()
        b = y * w + x
        if pattern >> b & 1:  # opaque: light stops here
            continue
        for dy in (-1, 0, 1):
            for dx in (-1, 0, 1):
                yy, xx = y + dy, x + dx
                if 0 <= yy < h and 0 <= xx < w:
                    bb = yy * w + xx
                    if vis >> bb & 1 and not L >> bb & 1:
                        L |= 1 << bb
                        stack.append((yy, xx))
    return L


def judge_pattern(name, pattern, h, w, origin, memo):
    def vis(p):
        if p not in memo:
            memo[p] = vis_mask(name, p, h, w, origin)
        return memo[p]

    try:
        v = vis(pattern)
    except Exception as e:  # noqa: BLE001
        return f'{name} raised {type(e).__name__}: {e}'
    # visibility depends on opacity only, not on which object type carries it (doors are opaque by status)
    for style in ('door', 'mixed', 'solid', 'items'):
        try:
            v_alt = vis_mask(name, pattern, h, w, origin, style=style)
        except Exception as e:  # noqa: BLE001
            return f'{name} raised {type(e).__name__} on the {style} encoding of the pattern: {e}'
        if v_alt != v:
            diff = [(b // w, b % w) for b in range(h * w) if (v ^ v_alt) >> b & 1]
            return (f'visibility differs between the Wall/Floor encoding and the {style} encoding (closed/open doors; boxes / keys / obstacles as the transparent cells) of the '
                    f'same opacity pattern at cells {diff}')
    o = origin[0] * w + origin[1]
    if not v >> o & 1:
        return "the agent's own cell is not visible"
    L = linked(pattern, v, h, w, origin)
    if v & ~L:
        bad = [(b // w, b % w) for b in range(h * w) if (v & ~L) >> b & 1]
        return f'visible cells {bad} are not linked to the agent by adjacent transparent visible cells'
    for b in range(h * w):
        if v >> b & 1 and pattern >> b & 1:
            v2 = vis(pattern & ~(1 << b))
            if v & ~v2:
                lost = [(c // w, c % w) for c in range(h * w) if (v & ~v2) >> c & 1]
                return f'making visible opaque cell {(b // w, b % w)} transparent hides {lost}'
    return None


def show_pattern(pattern, h, w, origin):
    return ' / '.join(''.join(('&' if pattern >> (y * w + x) & 1 else '@') if (y, x) == tuple(origin) else '#' if pattern >> (y * w + x) & 1 else '.'
                              for x in range(w)) for y in range(h))


def _vis_work(job):
    name, h, w, origin, lo, hi = job
    memo = {}
    n = 0
    fails = []
    for pattern in range(lo, hi):
        n += 1
        m = judge_pattern(name, pattern, h, w, origin, memo)
        if m and len(fails) < 3:
            fails.append({'kind': 'vis', 'name': name, 'pattern': pattern, 'h': h, 'w': w, 'origin': list(origin),
                          'message': f'{name} view {show_pattern(pattern, h, w, origin)}: {m}',
                          'sig': {'fn': name, 'part': 'visibility'}, 'simplicity': bin(pattern).count('1')})
        if len(memo) > 200000:
            memo.clear()
    return n, len(memo), fails


# ---------------------------------------------------------------- (b) observation-level non-interference
REPL = [FLOOR, WALL, U.key(U.C1), U.door(1, U.C1), U.exit_(0)]
NI_AREAS = [((-1, 0), (-1, 1)), ((-2, 0), (-1, 1)), ((-1, 0), (0, 1)), ((-2, 0), (-2, 2)), ((-1, 1), (-1, 1))]
NI_WIDE = [((-1, 0), (-3, 3)), U.SHIPPED_AREA]  # 7 columns wide, used with the elongated worlds


def judge_ni(s, area, name):
    from ..desc import sdesc
    st0 = mkstate(s)
    base = O.observe(name, area, st0)
    if isinstance(base[0], str):
        return 1, None
    # what is shown is a function of the world: looking does not change the world, and looking twice shows the same
    if sdesc(st0) != s:
        return 1, f'{name} area {area}: computing the observation changed the world (cells it hides were written into the state)'
    if O.observe(name, area, st0) != base:
        return 1, f'{name} area {area}: a second look at the same state shows something else'
    # the same view of the world must be shown when the objects are looked at through a state that was stepped from another
    from gym_gridverse.utils.fast_copy import fast_copy
    if O.observe(name, area, fast_copy(st0)) != base:
        return 1, f'{name} area {area}: a copy of the state is shown differently'
    st0 = None
    rows = s[0]
    H, W = R.shape(rows)
    (ymin, ymax), (xmin, xmax) = area
    shown = set()
    for i in range(ymax - ymin + 1):
        for j in range(xmax - xmin + 1):
            q = R.world_cell(s[1], s[2], s[3], ymin + i, xmin + j)
            if R.inside(rows, q) and base[0][i][j] != HIDDEN:
                shown.add(q)
    # the chain law on the observation itself (masking must follow the visibility function)
    oh, ow = R.shape(base[0])
    vis = pat = 0
    for i in range(oh):
        for j in range(ow):
            c = base[0][i][j]
            if c != HIDDEN:
                vis |= 1 << (i * ow + j)
                if R.blocks_vision(c):
                    pat |= 1 << (i * ow + j)
    anchor = (-ymin, -xmin)
    if not vis >> (anchor[0] * ow + anchor[1]) & 1:
        return 1, f"{name} area {area}: the agent's own cell is Hidden in the observation"
    L = linked(pat, vis, oh, ow, anchor)
    if vis & ~L:
        bad = [(b // ow, b % ow) for b in range(oh * ow) if (vis & ~L) >> b & 1]
        return 1, f'{name} area {area}: observation shows view cells {bad} that no chain of transparent shown cells links to the agent'
    n = 1
    for y in range(H):
        for x in range(W):
            if (y, x) in shown or (y, x) == (s[1], s[2]):
                continue
            for d in REPL:
                if d == rows[y][x]:
                    continue
                n += 1
                s2 = (R._set(rows, (y, x), d),) + s[1:]
                o2 = O.observe(name, area, mkstate(s2))
                if o2 != base:
                    return n, (f'{name} area {area}: replacing hidden/out-of-view world cell {(y, x)} '
                               f'({rows[y][x][0]} -> {d[0]}) changes the observation')
    return n, None


def _ni_work(job):
    shape, i, parts, names = job
    n = cases = 0
    fails = []
    for j, rows in enumerate(U.all_grids(shape, [FLOOR, WALL])):
        if j % parts != i:
            continue
        for y, x, h in U.poses(shape):
            if rows[y][x] != FLOOR:
                continue
            s = (rows, y, x, h, NONE)
            for area in (NI_WIDE if max(shape) >= 4 and min(shape) <= 2 else NI_AREAS):
                for name in names:
                    if not O.applicable(name, area):
                        continue
                    k, m = judge_ni(s, area, name)
                    n += k
                    cases += 1
                    if m and len(fails) < 3:
                        fails.append({'kind': 'ni', 's': s, 'area': area, 'name': name, 'message': m,
                                      'sig': {'fn': name, 'part': 'noninterference'}})
    return n, cases, fails


# ---------------------------------------------------------------- (c) stochastic bounds
def lit_sets(pattern, h, w, origin):
    """harness-side light propagation along the (library-provided, C19-verified) ray fan:
    returns (cells some ray reaches lit, cells every ray through them reaches lit)"""
    rays = compute_rays_fancy(Position(*origin), Area((0, h - 1), (0, w - 1)))
    some, total, litc = set(), {}, {}
    for ray in rays:
        light = True
        for p in ray:
            c = (p.y, p.x)
            total[c] = total.get(c, 0) + 1
            if light:
                litc[c] = litc.get(c, 0) + 1
                some.add(c)
            if pattern >> (p.y * w + p.x) & 1:
                light = False
    every = {c for c in total if litc.get(c, 0) == total[c]}
    return some, every


def judge_stoch(pattern, h, w, origin, seeds):
    def run(**kw):
        return vis_mask('stochastic_raytracing', pattern, h, w, origin, **kw)

    def cells(m):
        return {(b // w, b % w) for b in range(h * w) if m >> b & 1}

    try:
        vmax = cells(run(rng=ChoiceRng([], random_fill=1e-9)))
        vmin = cells(run(rng=ChoiceRng([], random_fill=1 - 1e-9)))
        det = cells(vis_mask('raytracing', pattern, h, w, origin))
    except Exception as e:  # noqa: BLE001
        return 3, f'stochastic_raytracing raised {type(e).__name__}: {e}'
    some, every = lit_sets(pattern, h, w, origin)
    n = 3
    if not vmax <= det:
        return n, f'stochastic view can show {sorted(vmax - det)} which the deterministic ray-traced view never shows'
    if not every <= vmin:
        return n, f'cells {sorted(every - vmin)} are reached lit by every ray but can be hidden by the stochastic view'
    if some != every:
        # the same bounds on the OBSERVATION (the masking step must follow the mask cell by cell): a world equal to the view,
        # the agent on the origin facing north, the view area placed so that view cell (i, j) is world cell (i, j)
        rows = tuple(tuple(WALL if pattern >> (y * w + x) & 1 else FLOOR for x in range(w)) for y in range(h))
        area = ((-origin[0], h - 1 - origin[0]), (-origin[1], w - 1 - origin[1]))
        s = (rows, origin[0], origin[1], 'F', NONE)
        for fill, lo_set, hi_set, what in ((1 - 1e-9, every, None, 'hides'), (1e-9, None, det, 'shows')):
            n += 1
            o = O.observe('stochastic_raytracing', area, mkstate(s), fill=fill)
            if isinstance(o[0], str):
                return n, f'stochastic_raytracing observation raised {o[1]}: {o[2]}'
            shown = {(i, j) for i in range(h) for j in range(w) if o[0][i][j] != HIDDEN}
            if lo_set is not None and not lo_set <= shown:
                return n, (f'the stochastic_raytracing OBSERVATION hides cells {sorted(lo_set - shown)} that every ray reaches lit '
                           f'(draws just below 1)')
            if hi_set is not None and not shown <= hi_set:
                return n, f'the stochastic_raytracing OBSERVATION shows cells {sorted(shown - hi_set)} the deterministic view never shows'
    if det != some:
        return n, None  # deterministic view is judged in part (a); nothing more to say here
    for sd in seeds:
        n += 1
        v = cells(run(rng=np.random.default_rng(sd)))
        if not (vmin <= v <= vmax):
            return n, f'numpy seed {sd}: visible set outside the bounds given by the extreme draws'
    return n, None


def _stoch_wall_work(job):
    h, w, origin, pats, seeds = job
    n = 0
    fails = []
    for pattern in pats:
        k, m = judge_stoch(pattern, h, w, origin, seeds)
        n += k
        if m and len(fails) < 2:
            fails.append({'kind': 'stoch', 'pattern': pattern, 'h': h, 'w': w, 'origin': list(origin), 'seeds': list(seeds),
                          'message': f'view {show_pattern(pattern, h, w, origin)}: {m}',
                          'sig': {'fn': 'stochastic_raytracing', 'part': 'wall_rows'}, 'simplicity': h * w})
    return n, len(pats), fails


def _stoch_work(job):
    h, w, origin, lo, hi, seeds = job
    n = 0
    fails = []
    for pattern in range(lo, hi):
        k, m = judge_stoch(pattern, h, w, origin, seeds)
        n += k
        if m and len(fails) < 3:
            fails.append({'kind': 'stoch', 'pattern': pattern, 'h': h, 'w': w, 'origin': list(origin), 'seeds': list(seeds),
                          'message': f'view {show_pattern(pattern, h, w, origin)}: {m}',
                          'sig': {'fn': 'stochastic_raytracing'}, 'simplicity': bin(pattern).count('1')})
    return n, hi - lo, fails


def judge_large_view(name, h, w, origin, walls):
    """laws on a view too large to enumerate all patterns: all-floor and patterns with the given wall cells"""
    pattern = 0
    for (y, x) in walls:
        pattern |= 1 << (y * w + x)
    return judge_pattern(name, pattern, h, w, origin, {})


def large_views():
    """view sizes whose number of rays (h+1)(w+1) sits at / around powers of two (counter widths) and other unusual shapes"""
    out = []
    for h, w in ((1, 127), (3, 63), (7, 31), (15, 15), (1, 255), (3, 127), (15, 31), (1, 63), (9, 9), (11, 5), (2, 85)):
        origin = (h - 1, w // 2)
        walls_sets = [(), ((0, 0),), ((max(0, h - 2), w // 2),), ((h - 1, max(0, w // 2 - 1)), (h - 1, min(w - 1, w // 2 + 1)))]
        for walls in walls_sets:
            walls = tuple(c for c in walls if c != origin)
            out.append((h, w, origin, walls))
    return out


def _large_work(items):
    out = []
    for h, w, origin, walls in items:
        origin, walls = tuple(origin), tuple(tuple(c) for c in walls)
        for name in ('raytracing', 'partially_occluded'):
            m = judge_large_view(name, h, w, origin, walls)
            if m:
                out.append({'kind': 'large', 'name': name, 'h': h, 'w': w, 'origin': list(origin), 'walls': [list(c) for c in walls],
                            'message': f'{name} view {h}x{w} (rays: {(h + 1) * (w + 1)}), walls {list(walls)}: {m}',
                            'sig': {'fn': name, 'part': 'large_view'}, 'simplicity': 100 + len(walls)})
    return out


def replay(case):
    k = case['kind']
    if k == 'large':
        return judge_large_view(case['name'], case['h'], case['w'], tuple(case['origin']), [tuple(c) for c in case['walls']])
    if k == 'vis':
        return judge_pattern(case['name'], case['pattern'], case['h'], case['w'], tuple(case['origin']), {})
    if k == 'ni':
        return judge_ni(tup(case['s']), tup(case['area']), case['name'])[1]
    if k == 'stoch':
        return judge_stoch(case['pattern'], case['h'], case['w'], tuple(case['origin']), case['seeds'])[1]
    raise ValueError(k)


def run(rep, tier, seed):
    seeds = (seed * 13 + 5, seed * 13 + 6, seed * 13 + 7)
    views = []
    if tier == 'quick':
        po = [(1, 1), (2, 1), (3, 1), (4, 1), (5, 1), (2, 2), (3, 2), (4, 2), (1, 3), (1, 5), (2, 3), (3, 3), (4, 3), (3, 5)]
        rt = [(1, 1), (3, 1), (1, 4), (2, 2), (2, 3), (3, 3), (3, 4)]
        rt_bottom = [(4, 3), (3, 5)]
    else:
        po = [(1, 1), (2, 1), (3, 1), (4, 1), (5, 1), (2, 2), (3, 2), (4, 2), (1, 3), (1, 5), (2, 3), (3, 3), (4, 3), (3, 5), (5, 3), (4, 4), (4, 5)]
        rt = [(2, 3), (3, 3), (3, 4), (4, 3), (4, 4)]
        rt_bottom = [(3, 5), (5, 3), (4, 5)]
    for h, w in po:
        for x in range(w):
            views.append(('partially_occluded', h, w, (h - 1, x)))
    for h, w in rt:
        for y in range(h):
            for x in range(w):
                views.append(('raytracing', h, w, (y, x)))
    for h, w in rt_bottom:
        views.append(('raytracing', h, w, (h - 1, w // 2)))
    jobs = []
    for name, h, w, origin in views:
        total = 1 << (h * w)
        step = max(256, total // 8) if total <= 1 << 16 else 1 << 13
        for lo in range(0, total, step):
            jobs.append((name, h, w, origin, lo, min(total, lo + step)))
    rep.bounds['visibility_views'] = [{'fn': v[0], 'view': [v[1], v[2]], 'origin': list(v[3]), 'patterns': 1 << (v[1] * v[2])} for v in views]
    vn = 0
    fails = []
    for n, _, fl in dyn.pmap_w('vis', _vis_work, jobs):
        vn += n
        fails.extend(fl)
    lv = large_views()
    # one job per view size: the wall variants of a size run in one (fresh) process, in order
    by_size = {}
    for item in lv:
        by_size.setdefault((item[0], item[1]), []).append(item)
    for fl in dyn.pmap_w('large', _large_work, list(by_size.values())):
        fails.extend(fl)
    rep.part('large_views', views=sorted({(h, w) for h, w, _, _ in lv}), cases=len(lv) * 2,
             rule='view sizes whose ray count (h+1)(w+1) is 128, 256 or 512 (and neighbours): all-floor and three wall placements')
    rep.part('visibility_patterns', views=len(views), patterns=vn)
    worlds = [(2, 3), (3, 2), (3, 3), (2, 4), (4, 2), (1, 5)] if tier == 'quick' else [(2, 3), (3, 2), (3, 3), (3, 4), (4, 3), (2, 4), (4, 2), (1, 5), (5, 1), (2, 5)]
    ni_jobs = [(sh, i, 32, ['partially_occluded', 'raytracing']) for sh in worlds for i in range(32)]
    nn = nc = 0
    for n, cases, fl in dyn.pmap_w('ni', _ni_work, ni_jobs):
        nn += n
        nc += cases
        fails.extend(fl)
    rep.part('noninterference', worlds=[list(s) for s in worlds], base_observations=nc, observations=nn,
             replacements=[d[0] for d in REPL], areas=NI_AREAS, wide_areas_for_elongated_worlds=NI_WIDE)
    sviews = [(3, 3, (2, 1)), (3, 3, (1, 1)), (2, 3, (1, 1)), (3, 4, (2, 1)), (3, 5, (2, 2)), (1, 3, (0, 1)), (3, 1, (2, 0))] + ([(3, 5, (2, 2)), (4, 3, (3, 1))] if tier != 'quick' else [])
    sjobs = []
    for h, w, origin in sviews:
        total = 1 << (h * w)
        step = max(64, total // 16)
        for lo in range(0, total, step):
            sjobs.append((h, w, origin, lo, min(total, lo + step), seeds))
    # deeper views than an exhaustive pattern space allows: one wall row at distance 1..3 in front of the agent with every
    # subset of gaps (rows of partially lit cells with fully lit cells beyond them), heights 4..6, widths 5, 7, 9
    wall_jobs = []
    for h in (4, 5, 6):
        for w in (5, 7, 9):
            origin = (h - 1, w // 2)
            pats = []
            for d in (1, 2, 3):
                yw = h - 1 - d
                if yw < 1:
                    continue
                for gaps in range(1 << w):
                    pats.append(sum(1 << (yw * w + x) for x in range(w) if not gaps >> x & 1))
            for lo in range(0, len(pats), 96):
                wall_jobs.append((h, w, origin, pats[lo:lo + 96], seeds[:1]))
    sn = sp = 0
    for n, pats, fl in dyn.pmap_w('stoch_wall', _stoch_wall_work, wall_jobs):
        sn += n
        sp += pats
        fails.extend(fl)
    rep.part('stochastic_bounds_wall_rows', patterns=sp, evaluations=sn, heights=[4, 5, 6], widths=[5, 7, 9])
    sn = sp = 0
    for n, pats, fl in dyn.pmap_w('stoch', _stoch_work, sjobs):
        sn += n
        sp += pats
        fails.extend(fl)
    rep.part('stochastic_bounds', views=[[h, w, list(o)] for h, w, o in sviews], patterns=sp, visibility_evaluations=sn, numpy_seeds=list(seeds))
    for f in fails:
        f.setdefault('s', None)
    fails.sort(key=lambda f: f.get('simplicity', 0))
    dyn.report_fails(rep, [{k: v for k, v in f.items() if not (k == 's' and v is None)} for f in fails], replay)
    rep.sample({'kind': 'vis', 'name': 'raytracing', 'pattern': 0b000010100, 'h': 3, 'w': 3, 'origin': [2, 1],
                'view': show_pattern(0b000010100, 3, 3, (2, 1))})
    rep.sample({'kind': 'ni', 's': (((FLOOR, WALL, FLOOR), (FLOOR, FLOOR, WALL)), 1, 0, 'F', NONE), 'area': NI_AREAS[0], 'name': 'partially_occluded'})
    rep.assume('scripted extreme draws are epsilon and 1-epsilon (epsilon=1e-9): the measure-zero draw u == 0.0 exactly is not modelled')
    rep.assume('the stochastic lower bound uses the library ray fan (verified separately by C19) with harness-side light propagation')
    return rep.finish(
        states=vn + nc + sp,
        transitions=vn + nn + sn,
        validated=vn + nn + sn,
        evaluations=vn + nn + sn,
        distinct_nontrivial=vn + nc + sp - len(views),
        rule='cases: every Wall/Floor pattern of each (function, view, origin); every (world pattern, pose, area, function) '
        'with all replacements of all hidden/out-of-view cells; every pattern of the stochastic views. Non-trivial = all '
        'but the all-floor pattern of each view',
    )


WORKERS = {'large': _large_work, 'vis': _vis_work, 'ni': _ni_work, 'stoch_wall': _stoch_wall_work, 'stoch': _stoch_work}

"""C03 -- the functional interface is pure, alias-free and history-independent.

(i)   no mutation: deep fingerprints of every argument before/after functional_step, every reward /
      termination component and every observation function, over the E1 universe (nested boxes, held items);
(ii)  no sharing: ids of all mutable components reachable from state and next_state are disjoint, and
      differentially: mutating either afterwards leaves the other's fingerprint unchanged;
(iii) history independence: every sequence (up to a depth) over an alphabet of questions built to collide on
      cache keys (shortest-path table, ray fans) gives, for each question, the answer obtained with cleared
      caches -- both from cleared caches and after a prologue that overflows the 10-entry distance table;
(iv)  fast_copy(s) == s and hashes agree.
"""
import itertools

import numpy as np

from gym_gridverse.envs import observation_functions as OF
from gym_gridverse.envs import reward_functions as RW
from gym_gridverse.geometry import Area, Position
from gym_gridverse.grid_object import Box, Color, Door
from gym_gridverse.utils import raytracing as RT
from gym_gridverse.utils.fast_copy import fast_copy

from .. import configs, dyn, reach
from .. import refmodel as R
from .. import universe as U
from ..choice import ChoiceRng, explore
from ..desc import NONE, mk, mkstate, sdesc, tup
from ..pool import pmap
from . import c01, c12

CHAINS = [dyn.CHAIN_FULL, dyn.CHAIN_KEYDOOR, dyn.CHAIN_OBST, dyn.CHAIN_TELEPORT]


def stateful(o):
    """an object that CAN hold per-instance state (it has an instance dictionary): writing to it through one state would
    show through every other state that holds the same object.  A truly immutable shared object (__slots__ = ()) is not
    a mutable component and is not counted."""
    return hasattr(o, '__dict__')


def mutable_ids(st):
    ids = {id(st.grid): 'Grid', id(st.grid.objects): 'grid rows list', id(st.agent): 'Agent',
           id(st.agent.transform): 'Transform'}
    for row in st.grid.objects:
        ids[id(row)] = 'grid row'
        for o in row:
            while True:
                if stateful(o):
                    ids[id(o)] = type(o).__name__
                if isinstance(o, Box):
                    o = o.content
                else:
                    break
    o = st.agent.grid_object
    while True:
        if stateful(o):
            ids[id(o)] = 'held ' + type(o).__name__
        if isinstance(o, Box):
            o = o.content
        else:
            break
    return ids


OTHER_COLOR = {Color.RED: Color.BLUE}


def scramble(st):
    """mutate everything mutable in st (in place)"""
    H, W = st.grid.shape.height, st.grid.shape.width
    for row in st.grid.objects:
        for o in row:
            while True:
                if isinstance(o, Door):
                    o.state = Door.Status.CLOSED if o.state is not Door.Status.CLOSED else Door.Status.OPEN
                if 'color' in getattr(o, '__dict__', {}):
                    o.color = OTHER_COLOR.get(o.color, Color.RED)
                if isinstance(o, Box):
                    inner = o.content
                    o.content = mk(U.key(3))
                    o = inner
                else:
                    break
    if H * W > 1:
        st.grid.swap(Position(0, 0), Position(H - 1, W - 1))
    st.grid.objects[0][0] = mk(U.beacon(2))
    st.grid.objects[-1].reverse()
    st.agent.position = Position((st.agent.position.y + 1) % H, (st.agent.position.x + 1) % W)
    st.agent.orientation = st.agent.orientation * st.agent.orientation.R
    held = st.agent.grid_object
    if 'color' in getattr(held, '__dict__', {}):
        held.color = OTHER_COLOR.get(held.color, Color.RED)
    st.agent.grid_object = mk(U.key(2))


def judge(names, s, a):
    shape = R.shape(s[0])
    env, _ = c01.make_env(shape, names)
    sig = {'part': 'step'}
    n = 0
    st = mkstate(s)
    hash(st), hash(st.grid), hash(st.agent)  # anything memoised on the objects is now primed

    def run(rng):
        env._rng = rng
        try:
            return env.functional_step(st, dyn.ACT[a])
        except Exception as e:  # noqa: BLE001
            return ('EXC', type(e).__name__, str(e)[:200])

    first = None
    for choices, res, _ in explore(run, max_runs=16):
        n += 1
        if isinstance(res[0], str):
            continue  # totality is C01's business
        st2 = res[0]
        if sdesc(st) != s:
            return n, True, f'functional_step({"+".join(names)}, {a}) modified its input state', dict(sig, law='no_mutation')
        shared = set(mutable_ids(st)) & set(mutable_ids(st2))
        if shared:
            what = sorted({mutable_ids(st)[i] for i in shared})
            return n, True, f'next state shares mutable components with its input: {what}', dict(sig, law='no_sharing')
        fresh = mkstate(sdesc(st2))
        if not (st2 == fresh) or hash(st2) != hash(fresh) or hash(st2.grid) != hash(fresh.grid) or hash(st2.agent) != hash(fresh.agent):
            return n, True, 'the returned next state does not equal / hash like a freshly built equal state', dict(sig, law='copy_hash')
        if first is None:
            first = st2
            first_choices = choices
    if first is not None:
        k2 = sdesc(first)
        # the step's private copy is a copy of THE STATE PASSED IN: the same chain run in place on a freshly built equal
        # state, with the same random script, ends in the same state (differential against the in-place functions)
        st_p = mkstate(s)
        try:
            dyn.chain_fn(names)(st_p, dyn.ACT[a], rng=ChoiceRng(first_choices))
            kp = sdesc(st_p)
        except Exception:  # noqa: BLE001 -- totality is C01's business
            kp = k2
        n += 1
        if kp != k2:
            return n, True, ('functional_step returned a next state that differs from running the same transition functions in '
                             'place on an equal state with the same random script'), dict(sig, law='copy_of_input')
        # second generation: a state that is itself the product of a step is stepped again; what it shares with its own
        # successor is judged exactly as for a hand-built state
        env._rng = ChoiceRng([])
        try:
            third = env.functional_step(first, dyn.ACT[a])[0]
        except Exception:  # noqa: BLE001
            third = None
        n += 1
        if sdesc(first) != k2:
            return n, True, 'functional_step modified an input state that was itself produced by a step', dict(sig, law='no_mutation')
        if third is not None:
            shared = set(mutable_ids(first)) & set(mutable_ids(third))
            if shared:
                what = sorted({mutable_ids(first)[i] for i in shared})
                return n, True, (f'the successor of a state that was itself produced by a step shares mutable components with '
                                 f'it: {what}'), dict(sig, law='no_sharing')
        # (ii) differential, both directions
        scramble(first)
        if sdesc(st) != s:
            return n, True, 'mutating the next state changed the input state', dict(sig, law='no_sharing')
        st_b = mkstate(s)
        env._rng = ChoiceRng([])
        nxt = env.functional_step(st_b, dyn.ACT[a])[0]
        k_before = sdesc(nxt)
        scramble(st_b)
        if sdesc(nxt) != k_before:
            return n, True, 'mutating the input state changed the returned next state', dict(sig, law='no_sharing')
        # (i) rewards / terminations / observations do not modify their arguments
        st_c, st_d = mkstate(s), mkstate(k2)
        act = dyn.ACT[a]
        # (the components do not branch on the action beyond move / actuate / other: three actions cover them)
        for i, (name, kw) in enumerate(c12.REWARDS if a in ('MOVE_FORWARD', 'ACTUATE', 'PICK_N_DROP') else ()):
            if not c12.RR.precondition(name, kw, s, k2):
                continue
            n += 1
            try:
                c12.real_reward(i, 'factory')(st_c, act, st_d)
            except Exception:  # noqa: BLE001
                continue
            if sdesc(st_c) != s or sdesc(st_d) != k2:
                return n, True, f'reward {name} modified its arguments', {'part': 'reward', 'component': name}
        for i, (name, kw) in enumerate(c12.TERMS if a in ('MOVE_FORWARD', 'ACTUATE', 'PICK_N_DROP') else ()):
            n += 1
            try:
                c12.real_term(i, 'factory')(st_c, act, st_d)
            except Exception:  # noqa: BLE001
                continue
            if sdesc(st_c) != s or sdesc(st_d) != k2:
                return n, True, f'termination {name} modified its arguments', {'part': 'termination', 'component': name}
    return n, R.nonfloor_count(s[0]) > 0, None, sig


def state_law(s):
    """(iv) copy equality / hash agreement, and observation purity, once per (grid, pose)"""
    st = mkstate(s)
    cp = fast_copy(st)
    if not (cp == st) or sdesc(cp) != s:
        return 'fast_copy(state) differs from the state'
    if hash(cp.grid) != hash(st.grid) or hash(cp.agent) != hash(st.agent) or hash(cp) != hash(st):
        return 'hash of a copied state/grid/agent differs from the original'
    if set(mutable_ids(cp)) & set(mutable_ids(st)):
        return 'fast_copy shares mutable components with the original'
    for area in (((-2, 0), (-1, 1)),):
        for name in c01.OBS_FUNCS[1:]:
            if name == 'partially_occluded' and area[0][1] != 0:
                continue
            fn = c01.obs_fn(name, ((area[0]), (area[1])))[0] if (area[1][1] - area[1][0]) % 2 == 0 else OF.factory(name, area=Area(*area))
            try:
                o1 = fn(st, rng=ChoiceRng([]))
                o2 = fn(st, rng=ChoiceRng([]))
            except Exception:  # noqa: BLE001
                continue
            if sdesc(st) != s:
                return f'observation function {name} modified the state'
            if sdesc(o1) != sdesc(o2):
                return f'observation function {name} gave two different answers for the same question'
    return None


_REPS = {}


def value_semantics(s):
    """answers depend on the VALUE of their arguments: ask about a state object, change that object in place (move / turn
    the agent, open a door), ask again - the second answer must equal the answer for a freshly built equal state.  Asked
    of: the four observation functions, the state / observation representations, the shortest-path reward."""
    from gym_gridverse.geometry import Position
    from gym_gridverse.grid_object import Door

    from .. import reps as P
    from ..desc import ORI

    H, W = R.shape(s[0])
    st = mkstate(s)
    types = sorted({o[0] for row in s[0] for o in row} | {'Floor'} | ({s[4][0]} if s[4][0] != 'NoneGridObject' else set()))
    if 'Box' in types or 'Hidden' in types:
        srep = None
    else:
        key = (H, W, tuple(types))
        if key not in _REPS:
            sp = P.state_space((H, W), types, (1, 2, 3, 4))
            _REPS[key] = [P.make_state_representation(r, sp) for r in P.REPS] if H > 1 and W > 1 else []
        srep = _REPS[key]
    area = ((-2, 0), (-1, 1))

    def ask(obj):
        out = []
        for name in c01.OBS_FUNCS:
            try:
                out.append(sdesc(c01.obs_fn(name, area)[0](obj, rng=ChoiceRng([]))))
            except Exception as e:  # noqa: BLE001
                out.append(type(e).__name__)
        for rp in (srep or []):
            try:
                out.append(tuple((k, v.tobytes()) for k, v in sorted(rp.convert(obj).items())))
            except Exception as e:  # noqa: BLE001
                out.append(type(e).__name__)
        return out

    ask(st)
    # in-place changes
    s2_rows = s[0]
    for yy, row in enumerate(st.grid.objects):
        for xx, o in enumerate(row):
            if isinstance(o, Door) and o.state is not Door.Status.OPEN:
                o.state = Door.Status.OPEN
                s2_rows = R._set(s2_rows, (yy, xx), ('Door', 0, s2_rows[yy][xx][2], None))
    st.agent.position = Position((s[1] + 1) % H, (s[2] + 1) % W)
    st.agent.orientation = ORI[R.TURN_LEFT[s[3]]]
    s2 = (s2_rows, (s[1] + 1) % H, (s[2] + 1) % W, R.TURN_LEFT[s[3]], s[4])
    if sdesc(st) != s2:
        return None
    if ask(st) != ask(mkstate(s2)):
        return ('after changing a state object in place (agent moved and turned, doors opened) an observation / representation of it '
                'differs from that of a freshly built equal state')
    return None


def state_law_all(s):
    return state_law(s) or value_semantics(s)


_worker = dyn.make_worker(judge, state_law=state_law_all, uses_held=lambda names: True)


# ---------------------------------------------------------------- (iii) cache histories
def layout_of(rows):
    return tuple(tuple(not R.blocks_move(o) for o in row) for row in rows)


def _questions():
    W, F_, K, E = U.WALL, U.FLOOR, U.key(U.C1), U.exit_(0)
    g1 = ((F_, F_, F_), (F_, W, F_), (F_, F_, E))
    g2 = ((F_, W, F_), (F_, W, F_), (F_, F_, E))  # same exit cell, different layout
    g3 = ((E, F_, F_), (F_, W, F_), (F_, F_, F_))  # same layout as g1, different source
    qs = []
    # shortest-path reward questions (collide on layout / on source)
    for g in (g1, g2, g3):
        s = (g, 0, 0, 'R', NONE) if g[0][0] != E else (g, 2, 2, 'R', NONE)
        s2 = (g, 1, 0, 'R', NONE) if g[0][0] != E else (g, 2, 1, 'R', NONE)
        qs.append(('sp_reward', s, 'MOVE_FORWARD', s2))
    # ray-traced observations (same area / different origin do not arise through observation functions: the
    # origin is fixed by the area; collide on area with different grids and on grids with different areas)
    og = ((F_, W, F_), (K, F_, F_), (F_, F_, W))
    qs.append(('obs', 'raytracing', ((-2, 0), (-1, 1)), (og, 2, 1, 'F', NONE)))
    qs.append(('obs', 'raytracing', ((-2, 0), (-1, 1)), (g1, 2, 1, 'F', NONE)))
    qs.append(('obs', 'raytracing', ((-1, 1), (-1, 1)), (og, 1, 1, 'R', NONE)))
    qs.append(('obs', 'partially_occluded', ((-2, 0), (-1, 1)), (og, 2, 1, 'F', NONE)))
    qs.append(('obs', 'fully_transparent', ((-2, 0), (-1, 1)), (og, 2, 1, 'F', NONE)))
    # direct table / fan queries
    qs.append(('dijkstra', layout_of(g1), (2, 2)))
    qs.append(('dijkstra', layout_of(g1), (0, 0)))
    qs.append(('dijkstra', layout_of(g2), (2, 2)))
    # a layout whose left column is cut off from the exit (unreachable cells: infinite distance, whatever ran before)
    g4 = ((F_, W, F_), (F_, W, F_), (F_, W, E))
    qs.append(('dijkstra', layout_of(g4), (2, 2)))
    qs.append(('sp_reward', (g4, 0, 0, 'B', NONE), 'MOVE_FORWARD', (g4, 1, 0, 'B', NONE)))
    qs.append(('rays', (1, 1), ((0, 2), (0, 2))))
    qs.append(('rays', (0, 1), ((0, 2), (0, 2))))
    qs.append(('rays', (1, 1), ((0, 1), (0, 2))))
    return qs


QUESTIONS = _questions()
_SP = RW.factory('getting_closer_shortest_path', object_type=c12.RR.grid_object_registry.from_name('Exit'))


def clear_caches():
    """clear every functools cache found in the library's modules (not only the ones known today)"""
    import sys

    for name, mod in list(sys.modules.items()):
        if not name.startswith('gym_gridverse') or mod is None:
            continue
        for attr in list(vars(mod).values()):
            if callable(getattr(attr, 'cache_clear', None)):
                attr.cache_clear()
            for sub in (vars(attr).values() if isinstance(attr, type) else ()):
                fn = getattr(sub, '__func__', sub)
                if callable(getattr(fn, 'cache_clear', None)):
                    fn.cache_clear()


def ask(q):
    kind = q[0]
    if kind == 'sp_reward':
        return ('num', float(_SP(mkstate(q[1]), dyn.ACT[q[2]], mkstate(q[3]))))
    if kind == 'obs':
        fn = OF.factory(q[1], area=Area(*q[2]))
        return ('obs', sdesc(fn(mkstate(q[3]), rng=ChoiceRng([]))))
    if kind == 'dijkstra':
        arr = RW.dijkstra(q[1], q[2])
        return ('arr', tuple(map(tuple, np.asarray(arr).tolist())))
    if kind == 'rays':
        rays = RT.cached_compute_rays_fancy(Position(*q[1]), Area(*q[2]))
        return ('rays', tuple(tuple(p.yx for p in ray) for ray in rays))
    raise ValueError(kind)


def bfs_table(layout, src):
    H, W = len(layout), len(layout[0])
    inf = float('inf')
    d = [[inf] * W for _ in range(H)]
    d[src[0]][src[1]] = 0.0
    frontier = [src]
    while frontier:
        nxt = []
        for y, x in frontier:
            for dy, dx in ((-1, 0), (1, 0), (0, -1), (0, 1)):
                y2, x2 = y + dy, x + dx
                if 0 <= y2 < H and 0 <= x2 < W and layout[y2][x2] and d[y2][x2] == inf:
                    d[y2][x2] = d[y][x] + 1
                    nxt.append((y2, x2))
        frontier = nxt
    return tuple(tuple(r) for r in d)


def prologue():
    """11 distinct distance-table keys (overflows the 10-entry table) + a few ray fans"""
    base = [[True] * 4 for _ in range(3)]
    for i in range(11):
        lay = [row[:] for row in base]
        lay[i // 4][i % 4] = False
        RW.dijkstra(tuple(map(tuple, lay)), (2, 3) if i != 11 else (0, 0))
    for y in range(2):
        RT.cached_compute_rays_fancy(Position(y, 0), Area((0, 3), (0, 1)))


def judge_history(seq, with_prologue):
    """returns message if some answer in this history differs from the cold answer"""
    cold = {}
    for qi in set(seq):
        clear_caches()
        cold[qi] = ask(QUESTIONS[qi])
    clear_caches()
    if with_prologue:
        prologue()
    for pos, qi in enumerate(seq):
        got = ask(QUESTIONS[qi])
        if got != cold[qi]:
            return (f'history {seq} (prologue={with_prologue}): answer #{pos} to question {QUESTIONS[qi][0]} differs from '
                    f'the answer with cleared caches')
    # uncached oracle for the direct queries
    for qi in set(seq):
        q = QUESTIONS[qi]
        if q[0] == 'dijkstra':
            raw = RW.dijkstra.__wrapped__(q[1], q[2])
            if tuple(map(tuple, np.asarray(raw).tolist())) != cold[qi][1]:
                return 'cached shortest-path table differs from the uncached computation'
            want = bfs_table(q[1], q[2])
            if cold[qi][1] != want:
                return (f'shortest-path table for layout {q[1]} from {q[2]} differs from breadth-first distances (unreachable and '
                        f'blocked cells are at infinite distance): {cold[qi][1]}')
        if q[0] == 'rays':
            raw = RT.compute_rays_fancy(Position(*q[1]), Area(*q[2]))
            if tuple(tuple(p.yx for p in ray) for ray in raw) != cold[qi][1]:
                return 'cached ray fan differs from the uncached computation'
    return None


def _hist_work(job):
    seqs, = job
    n = 0
    fails = []
    for seq in seqs:
        for pro in (False, True):
            n += 1
            m = judge_history(list(seq), pro)
            if m and len(fails) < 3:
                fails.append({'kind': 'history', 'seq': list(seq), 'prologue': pro, 'message': m,
                              'sig': {'part': 'cache_history'}})
    return n, fails


def make_hooks(env, name):
    """history independence over the reachable graph: every object reached through some history must answer like a
    freshly built equal state (same step result, same observation), and must equal / hash like it"""

    def on_edge(k, st, a, choices, k2, st2, reward, done, g):
        env._rng = ChoiceRng(choices)
        try:
            f2, fr, fd = env.functional_step(mkstate(k), a)
        except Exception as e:  # noqa: BLE001
            return f'{a.name}: a freshly built equal state raises {type(e).__name__} while the state reached through a history does not'
        if sdesc(f2) != k2 or fr != reward or bool(fd) != bool(done):
            return (f'{a.name}: the same question (state, action, random outcome) is answered differently for a state reached through '
                    f'a history than for a freshly built equal state')
        return None

    def on_state(k, st, g):
        fresh = mkstate(k)
        if not (st == fresh) or hash(st) != hash(fresh):
            return 'a state reached through a history does not equal / hash like a freshly built equal state'
        env._rng = ChoiceRng([])
        o1 = sdesc(env.functional_observation(st))
        env._rng = ChoiceRng([])
        o2 = sdesc(env.functional_observation(fresh))
        if o1 != o2:
            return 'the observation of a state reached through a history differs from that of a freshly built equal state'
        return None

    return on_state, on_edge


def judge_stateful_then_functional(name, seed):
    """the functional observation of a state does not depend on earlier use of the stateful interface of the same
    environment: reset / step / read the observation, change the current state object in place (the library's own
    in-place turn), then ask functional_observation about that object"""
    from gym_gridverse.action import Action
    from gym_gridverse.envs.transition_functions import transition_function_registry as TF

    from .. import envs

    env = envs.fresh(name, seed)
    twin = envs.fresh(name, seed)
    env.reset()
    for i in range(3):
        env.observation
        TF['turn_agent'](env.state, Action.TURN_LEFT)
        k = sdesc(env.state)
        env._rng = ChoiceRng([])
        twin._rng = ChoiceRng([])
        got = sdesc(env.functional_observation(env.state))
        want = sdesc(twin.functional_observation(mkstate(k)))
        if got != want:
            return (f'{name}: functional_observation(env.state), asked after env.observation was read and the state object was turned in '
                    f'place, differs from the observation of a freshly built equal state')
        env.set_seed(seed + i)
        env.step(env.action_space.actions[i % len(env.action_space.actions)])
    return None


def replay(case):
    if case['kind'] == 'stateful_functional':
        return judge_stateful_then_functional(case['config'], case['seed'])
    if case['kind'] == 'job':
        return dyn.replay_job(case, _worker)
    if case['kind'] == 'reach':
        return reach.replay_trace(case, make_hooks)
    if case['kind'] == 'step':
        return judge(tuple(case['names']), tup(case['s']), case['a'])[2]
    if case['kind'] == 'state_law':
        return state_law_all(tup(case['s']))
    if case['kind'] == 'history':
        return judge_history(case['seq'], case['prologue'])
    raise ValueError(case['kind'])


def run(rep, tier, seed):
    if tier == 'quick':
        plan = []
        for sh in U.SHAPES_SMALL:
            plan.append(dict(shape=sh, sigma='full', k=1, held='two', chains=[dyn.CHAIN_FULL], actions=R.ACTIONS))
            if sh[0] * sh[1] <= 4:
                plan.append(dict(shape=sh, sigma='door5', k=2, held='two', chains=[dyn.CHAIN_FULL], actions=R.ACTIONS, only_k=2))
    else:
        plan = []
        for sh in U.SHAPES_MID:
            plan.append(dict(shape=sh, sigma='full', k=1, held='small', chains=CHAINS if sh[0] * sh[1] <= 9 else [dyn.CHAIN_FULL],
                             actions=R.ACTIONS))
            if sh[0] * sh[1] <= 6:
                plan.append(dict(shape=sh, sigma='reduced', k=2, held='two', chains=[dyn.CHAIN_FULL], actions=R.ACTIONS, only_k=2))
            elif sh[0] * sh[1] <= 9:
                plan.append(dict(shape=sh, sigma='door5', k=2, held='two', chains=[dyn.CHAIN_FULL], actions=R.ACTIONS, only_k=2))
    for e in plan:
        e['cost'] = 12  # relative cost of one case (job sizing)
    tot = dyn.run_universe(rep, plan, _worker, replay)
    depth = 3 if tier == 'quick' else 4
    nq = len(QUESTIONS)
    seqs = [seq for d in range(1, depth + 1) for seq in itertools.product(range(nq), repeat=d)]
    # depth beyond: all sequences up to length 5 over the 4 direct table queries that collide on layout/source
    core = [8, 9, 10, 0]
    seqs += [seq for d in range(depth + 1, 6) for seq in itertools.product(core, repeat=d)]
    chunks = [(seqs[i::64],) for i in range(64)]
    hn = 0
    fails = []
    for n, fl in dyn.pmap_w('hist', _hist_work, chunks):
        hn += n
        fails.extend(fl)
    dyn.report_fails(rep, fails, replay)
    rep.part('cache_histories', questions=nq, histories=hn, depth_all_questions=depth, depth_core_questions=5,
             question_kinds=sorted({q[0] for q in QUESTIONS}))
    if tier == 'quick':
        names, init_limit, max_states, gcap = configs.SMALL + ['crossing.7x7', 'four_rooms.7x7'], 120, 4000, 3
    else:
        names, init_limit, max_states, gcap = configs.SMALL + ['crossing.7x7', 'four_rooms.7x7', 'keydoor.7x7'], 160, 5000, 4
    rs, rt = dyn.run_reach(rep, names, init_limit, max_states, make_hooks, replay, 'history_independent_on_reachable_graph',
                           group_cap=gcap, lineages=3)
    for name in configs.SMALL + ['four_rooms.7x7']:
        m = judge_stateful_then_functional(name, seed + 2)
        if m:
            rep.violation({'kind': 'stateful_functional', 'config': name, 'seed': seed + 2, 'sig': {'part': 'stateful_then_functional'}}, m)
    rep.sample({'kind': 'history', 'seq': [7, 9, 8, 7], 'prologue': True})
    rep.assume('an object counts as a mutable component when it has an instance dictionary (it can be written to), Floor and '
               'Wall included; observations may share cell objects with the state (only modification is forbidden)')
    return rep.finish(
        states=tot['states'] + rs,
        transitions=tot['exec'] + hn + rt,
        validated=tot['exec'] + hn + rt,
        evaluations=tot['exec'] + hn + rt,
        distinct_nontrivial=tot['nontrivial'] + hn,
        rule='universe case = (grid, pose, held, chain, action): step + differential mutation + all reward/termination '
        'components; history case = one sequence of questions (from cleared caches / after an overflowing prologue); '
        'non-trivial = grid has non-floor cells, or any history',
    )


WORKERS = {'hist': _hist_work}

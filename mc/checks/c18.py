"""C18 -- geometry is a consistent algebra of quarter turns and rigid motions.

Exhaustive enumeration of all orientation triples, all positions in a box [-N,N]^2 plus extreme
coordinates, all transforms over them, all areas with bounds in [-2,2], labelled grids of all
shapes <= 4x4; every law is evaluated on the real classes.
"""
import itertools

from gym_gridverse.action import Action
from gym_gridverse.agent import Agent
from gym_gridverse.envs.utils import get_next_position
from gym_gridverse.geometry import Area, Orientation, Position, Transform
from gym_gridverse.grid import Grid

from .. import refmodel as R
from ..desc import ORI, ORI_NAME, mkgrid, gdesc, HEADINGS
from ..pool import pmap, shards
from ..universe import labelled_grid

O = [ORI[h] for h in HEADINGS]
F = Orientation.F
UNIT = {'MOVE_FORWARD': (-1, 0), 'MOVE_BACKWARD': (1, 0), 'MOVE_LEFT': (0, -1), 'MOVE_RIGHT': (0, 1)}


def P(t):
    return Position(t[0], t[1])


def ref_rot(h, p):
    """harness-side rotation: agent-frame vector p=(y,x) expressed in the world frame of heading h"""
    return R.world_cell(0, 0, h, p[0], p[1])


def T(t):
    return Transform(P(t[0]), ORI[t[1]])


# ---- laws: each takes JSON-able args and returns None (holds) or a message -------------------------
def law_orient(args):
    a, b, c = (ORI[x] for x in args)
    if (a * b) * c != a * (b * c):
        return 'orientation product not associative'
    if F * a != a or a * F != a:
        return 'FORWARD is not the identity'
    if a * (-a) != F or (-a) * a != F:
        return 'negation is not the inverse'
    if a * b != b * a:
        return 'quarter turns do not commute'
    if not isinstance(a * b, Orientation):
        return 'product leaves the group'
    # independent table: composing headings == composing clockwise quarter-turn counts
    k = {'F': 0, 'R': 1, 'B': 2, 'L': 3}
    if ORI_NAME[a * b] != HEADINGS[(k[args[0]] + k[args[1]]) % 4]:
        return f'{args[0]}*{args[1]} is not the composition of quarter turns'
    return None


def law_cyclic(args):
    g = ORI[args[0]]
    powers = [F]
    for _ in range(4):
        powers.append(powers[-1] * g)
    if powers[4] != F:
        return 'fourth power of a generator is not the identity'
    if args[0] in ('R', 'L') and len(set(powers[:4])) != 4:
        return 'quarter turn does not generate four distinct orientations'
    return None


def law_action(args):
    h, p, q = args
    o = ORI[h]
    pp, qq = P(p), P(q)
    if o * pp != P(ref_rot(h, p)):
        return f'{h}*{p} = {(o * pp).yx}, reference rotation gives {ref_rot(h, p)}'
    if o * (pp + qq) != o * pp + o * qq:
        return 'action on positions is not additive'
    if o * (-pp) != -(o * pp):
        return 'action does not commute with negation'
    if Position.manhattan_distance(o * pp, o * qq) != Position.manhattan_distance(pp, qq):
        return 'action is not a Manhattan isometry'
    if Position.euclidean_distance(o * pp, o * qq) != Position.euclidean_distance(pp, qq):
        return 'action is not a Euclidean isometry'
    if pp * o != o * pp:
        return 'reflected multiplication differs'
    return None


def law_action2(args):
    a, b, p = args
    oa, ob, pp = ORI[a], ORI[b], P(p)
    if (oa * ob) * pp != oa * (ob * pp):
        return 'acting with a product differs from acting successively'
    return None


def law_transform3(args):
    t1, t2, t3 = (T(t) for t in args)
    if (t1 * t2) * t3 != t1 * (t2 * t3):
        return 'transform composition not associative'
    q = t3.position
    if (t1 * t2) * q != t1 * (t2 * q):
        return 'acting with a composed transform differs from acting successively'
    return None


def law_transform1(args):
    (t1,) = (T(t) for t in args)
    ident = Transform(Position(0, 0), F)
    if t1 * ident != t1 or ident * t1 != t1:
        return 'identity transform is not neutral'
    if t1 * (-t1) != ident or (-t1) * t1 != ident:
        return 'negated transform is not the inverse'
    p, h = args[0]
    for q in ((0, 0), (1, 0), (0, 1), (-2, 3)):
        want = ref_rot(h, q)
        want = (p[0] + want[0], p[1] + want[1])
        if (t1 * P(q)).yx != want:
            return f'transform * {q} = {(t1 * P(q)).yx}, reference {want}'
        if (-t1) * (t1 * P(q)) != P(q):
            return 'inverse transform does not undo the action'
    for h2 in HEADINGS:
        if t1 * ORI[h2] != t1.orientation * ORI[h2]:
            return 'transform * orientation differs from orientation product'
    return None


def law_area(args):
    t, a = args
    tr = T(t)
    area = Area(tuple(a[0]), tuple(a[1]))
    got = tr * area
    want = {(tr * p).yx for p in area.positions()}
    have = {p.yx for p in got.positions()}
    if want != have:
        return 'transformed area is not the set of transformed positions'
    if got.height * got.width != area.height * area.width:
        return 'transformed area changes size'
    o = tr.orientation
    if {(o * p).yx for p in area.positions()} != {p.yx for p in (o * area).positions()}:
        return 'rotated area is not the set of rotated positions'
    pos = tr.position
    if {(pos + p).yx for p in area.positions()} != {p.yx for p in (pos + area).positions()}:
        return 'translated area is not the set of translated positions'
    inside = {p.yx for p in area.positions('inside')}
    border = {p.yx for p in area.positions('border')}
    allp = {p.yx for p in area.positions()}
    if inside | border != allp or inside & border:
        return 'border/inside do not partition the area'
    for p in allp:
        if not area.contains(P(p)):
            return 'area does not contain its own position'
    return None


def law_from_positions(args):
    """the area spanned by a collection of positions is their bounding box, whatever their number and order; and the area
    spanned by the transformed positions of an area's corners is the transformed area"""
    pts = [tuple(p) for p in args[0]]
    want = ((min(p[0] for p in pts), max(p[0] for p in pts)), (min(p[1] for p in pts), max(p[1] for p in pts)))
    for order in itertools.permutations(pts):
        got = Area.from_positions([P(p) for p in order])
        if ((got.ymin, got.ymax), (got.xmin, got.xmax)) != want:
            return f'Area.from_positions({list(order)}) = {((got.ymin, got.ymax), (got.xmin, got.xmax))}, bounding box is {want}'
    if len(args) > 1:
        tr = T(args[1])
        a = Area(want[0], want[1])
        corners = [(a.ymin, a.xmin), (a.ymax, a.xmax)]
        img = Area.from_positions([tr * P(c) for c in corners])
        if img != tr * a:
            return 'the area spanned by the transformed opposite corners differs from the transformed area'
    return None


def _index_rot(rows, h):
    """harness index arithmetic for `grid * h` (the grid as seen by an agent heading h)"""
    H, W = len(rows), len(rows[0])
    if h == 'F':
        return rows
    if h == 'B':
        return tuple(tuple(rows[H - 1 - y][W - 1 - x] for x in range(W)) for y in range(H))
    if h == 'R':  # counter-clockwise: (y,x) -> (W-1-x, y)
        new = [[None] * H for _ in range(W)]
        for y in range(H):
            for x in range(W):
                new[W - 1 - x][y] = rows[y][x]
        return tuple(tuple(r) for r in new)
    if h == 'L':  # clockwise: (y,x) -> (x, H-1-y)
        new = [[None] * H for _ in range(W)]
        for y in range(H):
            for x in range(W):
                new[x][H - 1 - y] = rows[y][x]
        return tuple(tuple(r) for r in new)


def pattern_grid(shape):
    """grids too large for pairwise distinct labels: a position-dependent, non-periodic-in-small-steps pattern (the cell
    by cell comparison with the index formula and the object-identity check do not need distinct labels)"""
    from ..universe import LABELS_T
    h, w = shape
    return tuple(tuple(LABELS_T[(y * 7 + x * 3 + y // 5 + (x * y) % 11) % len(LABELS_T)] for x in range(w)) for y in range(h))


def law_imul(args):
    """augmented assignment composes like the plain product: `t *= s` leaves t equal to t * s, and s untouched"""
    a, b = args
    t, s_ = T(a), T(b)
    want = T(a) * T(b)
    t *= s_
    if t != want:
        return f'after `t *= s` t is {(t.position.yx, ORI_NAME[t.orientation])}, t * s is {(want.position.yx, ORI_NAME[want.orientation])}'
    if s_ != T(b):
        return '`t *= s` changed s'
    o = ORI[a[1]]
    o *= ORI[b[1]]
    if o != ORI[a[1]] * ORI[b[1]]:
        return '`o *= o2` on orientations differs from the product'
    p = P(a[0])
    t2 = T(b)
    q = t2 * p
    t2 *= p
    if t2 != q:
        return '`t *= position` differs from t * position'
    return None


def law_grid(args):
    shape, a, b = args
    rows = labelled_grid(tuple(shape)) if shape[0] * shape[1] <= 16 else pattern_grid(tuple(shape))
    g = mkgrid(rows)
    oa, ob = ORI[a], ORI[b]
    ga = g * oa
    flat = sorted(d for row in gdesc(ga) for d in row)
    if flat != sorted(d for row in rows for d in row):
        return 'rotation does not preserve the multiset of objects'
    if gdesc(ga) != _index_rot(rows, a):
        return f'grid*{a} differs from the index formula'
    if gdesc(ga * (-oa)) != rows:
        return 'inverse rotation does not restore the grid'
    if gdesc((g * oa) * ob) != gdesc(g * (oa * ob)):
        return 'rotating twice differs from rotating by the product'
    if gdesc(oa * g) != gdesc(ga):
        return 'reflected multiplication differs'
    # position / grid consistency, using the library's own area algebra for the offset
    area2 = (-oa) * g.area
    off = Position(area2.ymin, area2.xmin)
    for p in g.area.positions():
        q = (-oa) * p - off
        if ga[q] is not g[p]:
            return f'object at {p.yx} did not end at rotated position {q.yx}'
    if ga.shape != (g.shape if a in 'FB' else type(g.shape)(g.shape.width, g.shape.height)):
        return 'rotated grid has the wrong shape'
    if gdesc(g) != rows:
        return 'rotation modified the original grid'
    return None


def law_nextpos(args):
    p, h, a = args
    act = Action[a]
    got = get_next_position(P(p), ORI[h], act)
    if a in UNIT:
        want = T((p, h)) * P(UNIT[a])
        v = R.move_vec(h, a)
        ref = (p[0] + v[0], p[1] + v[1])
        if got != want:
            return 'tentative next position disagrees with the pose algebra'
        if got.yx != ref:
            return f'tentative next position {got.yx} != reference {ref}'
    elif got != P(p):
        return 'non-move action changes the tentative position'
    if a == 'MOVE_FORWARD' and Agent(P(p), ORI[h]).front() != got:
        return 'Agent.front() differs from the forward move target'
    return None


def law_neg_history(args):
    """transforms are mutable: inverses handed out earlier must not be aliased with / invalidated by later mutation"""
    t1, t2 = args
    t = T(t1)
    ident = Transform(Position(0, 0), F)
    old = T(t1)
    s = -t
    t.position = P(t2[0])
    t.orientation = ORI[t2[1]]
    if -s != old:
        return 'after mutating a transform, the negation of its earlier inverse is no longer the original value'
    if t * (-t) != ident or (-t) * t != ident:
        return 'after mutation, a transform times its negation is not the identity'
    s.position = P(t2[0])
    s.orientation = ORI[t2[1]]
    if (-s) * s != ident:
        return 'after mutating an inverse, its negation is not its inverse'
    if -t != -T(t2):
        return 'negation of a mutated transform differs from the negation of a fresh equal transform'
    return None


def law_alias(args):
    """products are new values: changing an operand (or the product) afterwards must not change the other"""
    t1, t2 = args
    for left_identity in (False, True):
        t, e = T(t1), Transform(Position(0, 0), F)
        prod = (e * t) if left_identity else (t * e)
        before = T(t1)
        if prod != before:
            return 'composing with the identity changes the value'
        prod.position = P(t2[0])
        prod.orientation = ORI[t2[1]]
        if t != before:
            return 'changing the product of a pose with the identity changed the pose itself (aliased result)'
        t, e = T(t1), Transform(Position(0, 0), F)
        prod = (e * t) if left_identity else (t * e)
        t.position = P(t2[0])
        if prod != before:
            return 'changing a pose changed an earlier product of it with the identity (aliased result)'
    a, b = T(t1), T(t2)
    prod = a * b
    val = T(t1) * T(t2)
    a.position = P((7, 7))
    b.orientation = ORI['B'] if t2[1] != 'B' else ORI['F']
    if prod != val:
        return 'changing an operand changed an earlier product (aliased result)'
    p = P(t2[0])
    q = T(t1) * p
    if q is p and T(t1) != Transform(Position(0, 0), F):
        return 'a transformed position is the operand object itself'
    return None


LAWS = {
    'from_positions': law_from_positions,
    'imul': law_imul,
    'alias': law_alias,
    'neg_history': law_neg_history,
    'orient': law_orient,
    'cyclic': law_cyclic,
    'action': law_action,
    'action2': law_action2,
    'transform3': law_transform3,
    'transform1': law_transform1,
    'area': law_area,
    'grid': law_grid,
    'nextpos': law_nextpos,
}


def replay(case):
    if case['kind'] == 'history':
        msg = None
        for args in case['cases']:
            msg = LAWS[case['law']](args)
        return msg
    return LAWS[case['kind']](case['args'])


def _norm(x):
    return tuple(_norm(e) for e in x) if isinstance(x, (list, tuple)) else x


def history_for(kind, args, N):
    """the cases of law `kind` that precede (and include) `args` in enumeration order - only for the area law, whose
    subjects (pose x area) are what a caching implementation would key on; other laws: the case alone"""
    if kind != 'area':
        return [args]
    box = [(y, x) for y in range(-N, N + 1) for x in range(-N, N + 1)]
    transforms = [(p, h) for p in box for h in HEADINGS]
    areas = [((a, b), (c, d)) for a in range(-2, 3) for b in range(a, 3) for c in range(-2, 3) for d in range(c, 3)]
    want = _norm(args)
    out = []
    for t in transforms:
        if t[1] != want[0][1]:
            continue
        for a in areas:
            out.append([t, a])
            if _norm([t, a]) == want:
                return out
    return [args]


def _work(shard):
    """shard = list of (kind, iterable-spec); returns (counts, failures); a failure remembers how many cases of its job
    preceded it, so that a failure depending on earlier calls in the process can be re-run with its history"""
    counts = {}
    fails = []
    for kind, args_iter in shard:
        law = LAWS[kind]
        n = 0
        for args in args_iter:
            n += 1
            msg = law(args)
            if msg and len(fails) < 20:
                fails.append((kind, args, msg, n))
        counts[kind] = counts.get(kind, 0) + n
    return counts, fails


def run(rep, tier, seed):
    N = 2 if tier == 'quick' else 4
    box = [(y, x) for y in range(-N, N + 1) for x in range(-N, N + 1)]
    big = [2**31, -(2**31), 2**53 + 1, -(2**53 + 1)]
    extremes = [(b, 0) for b in big] + [(0, b) for b in big] + [(big[0], big[3]), (big[2], big[2])]
    positions = box + extremes
    transforms = [(p, h) for p in box for h in HEADINGS]
    tx_ext = transforms + [(p, h) for p in extremes[:4] for h in HEADINGS]
    rep.bounds = {
        'position_box': f'[-{N},{N}]^2',
        'extreme_coordinates': [str(b) for b in big],
        'transforms': len(transforms),
        'area_bounds': '[-2,2]',
        'grid_shapes': 'all HxW with H,W in 1..4; (n+d) x m and m x (n+d) for n in 16..512 powers of two, d in -1..1, m in 1..3',
    }
    jobs = []
    jobs.append(('orient', [list(t) for t in itertools.product(HEADINGS, repeat=3)]))
    jobs.append(('cyclic', [[h] for h in HEADINGS]))
    for h in HEADINGS:
        jobs.append(('action', [[h, p, q] for p in positions for q in positions]))
    jobs.append(('action2', [[a, b, p] for a in HEADINGS for b in HEADINGS for p in positions]))
    jobs.append(('transform1', [[t] for t in tx_ext]))
    jobs.append(('neg_history', [[a, b] for a in transforms for b in transforms[::7]]))
    jobs.append(('alias', [[a, b] for a in transforms for b in transforms[::7]]))
    jobs.append(('imul', [[a, b] for a in transforms for b in transforms[::3]]))
    small = [(y, x) for y in range(-1, 2) for x in range(-2, 2)]
    jobs.append(('from_positions', [[[p]] for p in box] + [[[p, q], t] for p in box for q in box[::3] for t in transforms[::11]]
                 + [[list(c)] for c in itertools.combinations(small, 3)] + [[list(c)] for c in itertools.combinations(small[::2], 4)]))
    for t1 in transforms:
        jobs.append(('transform3', _T3(t1, transforms)))
    areas = [
        ((a, b), (c, d))
        for a in range(-2, 3)
        for b in range(a, 3)
        for c in range(-2, 3)
        for d in range(c, 3)
    ]
    # one job per heading: every position of the box meets every area in ONE process (a result cached under a colliding
    # key - e.g. hash(-1) == hash(-2) - is only exposed when both poses are used in the same process)
    for hd in HEADINGS:
        jobs.append(('area', [[t, a] for t in tx_ext if t[1] == hd for a in areas]))
    shapes = [(h, w) for h in range(1, 5) for w in range(1, 5)]
    jobs.append(('grid', [[s, a, b] for s in shapes for a in HEADINGS for b in HEADINGS]))
    # sizes around every power of two up to 2**9 on one axis (bulk operations of the rotation switch algorithms there)
    tall = [(n + d, m) for n in (16, 32, 64, 128, 256, 512) for d in (-1, 0, 1) for m in (1, 2, 3)]
    jobs.append(('grid', [[sh, a, b] for s in tall for sh in (s, s[::-1]) for a in HEADINGS for b in ('F', 'R')]))
    jobs.append(('nextpos', [[p, h, a] for p in positions for h in HEADINGS for a in R.ACTIONS]))
    results = pmap(_work, [[j] for j in jobs], fresh=True)
    total = {}
    for counts, fails in results:
        for k, v in counts.items():
            total[k] = total.get(k, 0) + v
        for kind, args, msg, pos in fails:
            if LAWS[kind](args):  # re-execute before reporting
                rep.violation({'kind': kind, 'args': args, 'sig': {'law': kind}}, f'{kind}{args}: {msg}')
            else:
                # not reproducible in isolation: re-run the preceding cases of the same law in order
                hist = history_for(kind, args, N)
                from ..pool import replay_in_new_interpreter
                from ..report import jsonable
                if replay({'kind': 'history', 'law': kind, 'cases': hist}) or replay_in_new_interpreter(
                        'C18', jsonable({'kind': 'history', 'law': kind, 'cases': hist})):
                    rep.violation({'kind': 'history', 'law': kind, 'cases': hist, 'sig': {'law': kind, 'history_dependent': True}},
                                  f'{kind}{args}: {msg} [only after {len(hist) - 1} earlier evaluations of the same law in the process: '
                                  'the result depends on earlier calls]')
                else:
                    raise SystemExit(f'INTERNAL: {kind}{args} failed in the exploration but not on re-execution')
    for k, v in total.items():
        rep.part(k, cases=v)
    rep.sample({'kind': 'transform3', 'args': [[[1, -2], 'R'], [[0, 2], 'L'], [[-1, 1], 'B']]})
    rep.sample({'kind': 'grid', 'args': [[2, 3], 'R', 'L']})
    rep.sample({'kind': 'action', 'args': ['R', [2**31, 0], [0, -(2**53 + 1)]]})
    rep.assume('coordinates are unbounded integers: covered box plus extreme values; generalisation relies on the '
               'operations being affine in the coordinates with no branch on coordinate values')
    evals = sum(total.values())
    nontrivial = evals - total.get('cyclic', 0)
    states = len(positions) + len(tx_ext) + len(areas) + len(shapes) + 4
    rep.exhaustive = True
    return rep.finish(
        states=states,
        transitions=evals,
        validated=evals,
        evaluations=evals,
        distinct_nontrivial=nontrivial,
        rule='every law instance (tuple of orientations/positions/transforms/areas/grid shapes) enumerated once; '
        'all are distinct by construction; non-trivial = all except the 4 generator-power instances',
    )


class _T3:
    """lazy iterable of transform triples with a fixed first element (keeps the job list small)"""

    def __init__(self, t1, transforms):
        self.t1, self.ts = t1, transforms

    def __iter__(self):
        for t2 in self.ts:
            for t3 in self.ts:
                yield [self.t1, t2, t3]

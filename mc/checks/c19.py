"""C19 -- rays are connected paths that sweep the whole area.

Every area of height,width in 1..7 (thorough 1..9) at offsets (0,0) and (-h+1, -w//2) x every origin x every
ray of compute_rays_fancy (thorough: also the 360 rays of compute_rays): starts at the origin, stays inside,
no repeats, 8-adjacent steps, ends on the border; the fan covers every cell; cached == uncached after every
history of queries (all sequences up to length 4 over 5 colliding queries); all-floor ray-traced visibility
is all-true.
"""
import itertools

import numpy as np

from gym_gridverse.envs.visibility_functions import visibility_function_registry as VF
from gym_gridverse.geometry import Area, Position
from gym_gridverse.grid import Grid
from gym_gridverse.utils import raytracing as RT

from .. import dyn
from ..pool import pmap


def ray_law(ray, origin, area):
    (ymin, ymax), (xmin, xmax) = area
    if not ray:
        return 'empty ray'
    cells = [p.yx for p in ray]
    if cells[0] != tuple(origin):
        return f'ray starts at {cells[0]}, not at the origin'
    if len(set(cells)) != len(cells):
        return 'ray visits a cell twice'
    for c in cells:
        if not (ymin <= c[0] <= ymax and xmin <= c[1] <= xmax):
            return f'ray leaves the area at {c}'
    for a, b in zip(cells, cells[1:]):
        if max(abs(a[0] - b[0]), abs(a[1] - b[1])) != 1:
            return f'ray jumps from {a} to {b}'
    last = cells[-1]
    if not (last[0] in (ymin, ymax) or last[1] in (xmin, xmax)):
        return f'ray ends at {last}, not on the border'
    return None


_LAST = [None]


def judge_fan(area, origin, which='fancy'):
    a = Area(*area)
    pos = Position(*origin)
    fn = RT.compute_rays_fancy if which == 'fancy' else RT.compute_rays
    try:
        rays = fn(pos, a)
        rays2 = fn(pos, a)
    except Exception as e:  # noqa: BLE001
        return 0, f'{fn.__name__} raised {type(e).__name__}: {e}'
    n = len(rays)
    if not rays:
        return 0, 'empty fan'
    for ray in rays:
        m = ray_law(ray, origin, area)
        if m:
            return n, m
    covered = {p.yx for ray in rays for p in ray}
    want = {(y, x) for y in range(area[0][0], area[0][1] + 1) for x in range(area[1][0], area[1][1] + 1)}
    if which == 'fancy' and covered != want:
        return n, f'fan misses cells {sorted(want - covered)[:6]}'
    as_t = lambda rs: tuple(tuple(p.yx for p in r) for r in rs)  # noqa: E731
    _LAST[0] = as_t(rays)
    if _LAST[0] != as_t(rays2):
        return n, 'two computations of the same fan differ'
    cached = (RT.cached_compute_rays_fancy if which == 'fancy' else RT.cached_compute_rays)(pos, a)
    if as_t(cached) != as_t(rays):
        return n, 'cached fan differs from the uncached computation'
    if which == 'fancy' and area[0][0] == 0 and area[1][0] == 0:
        h, w = area[0][1] + 1, area[1][1] + 1
        vis = VF['raytracing'](Grid.from_shape((h, w)), pos)
        if not np.asarray(vis).all() or np.asarray(vis).shape != (h, w):
            return n, 'unobstructed ray-traced view does not show every cell'
        # ... in both counting modes: when nothing obstructs, every ray through a cell is lit (all of them: ratio 1)
        vis = np.asarray(VF['raytracing'](Grid.from_shape((h, w)), pos, absolute_counts=False, threshold=1))
        if not vis.all() or vis.shape != (h, w):
            hidden = [(int(y), int(x)) for y, x in zip(*np.where(~vis))][:4]
            return n, f'unobstructed ray-traced view in ratio mode (absolute_counts=False, threshold 1) does not show cells {hidden}'
    return n, None


QUERIES = [((1, 1), ((0, 2), (0, 2))), ((0, 1), ((0, 2), (0, 2))), ((1, 1), ((0, 1), (0, 2))), ((1, 1), ((0, 2), (0, 3))),
           ((0, 0), ((0, 0), (0, 0))),
           # queries whose origin lies outside the area: whatever they answer (an error, a fan), they are part of "any order of
           # earlier ray queries" and must leave the answers to the valid queries alone
           ((5, 1), ((0, 2), (0, 2))), ((-1, -4), ((0, 2), (0, 3)))]
VALID_QUERIES = 5


def judge_history(seq):
    as_t = lambda rs: tuple(tuple(p.yx for p in r) for r in rs)  # noqa: E731
    getattr(RT.cached_compute_rays_fancy, 'cache_clear', lambda: None)()  # a memoiser without cache_clear is legitimate
    # the answers to the valid queries, taken before the history starts
    truth = {qi: as_t(RT.compute_rays_fancy(Position(*QUERIES[qi][0]), Area(*QUERIES[qi][1]))) for qi in set(seq) if qi < VALID_QUERIES}
    for i, qi in enumerate(seq):
        origin, area = QUERIES[qi]
        if qi >= VALID_QUERIES:
            for fn in (RT.cached_compute_rays_fancy, RT.compute_rays_fancy):
                try:
                    fn(Position(*origin), Area(*area))
                except Exception:  # noqa: BLE001 -- rejected: fine
                    pass
            continue
        got = RT.cached_compute_rays_fancy(Position(*origin), Area(*area))
        unc = as_t(RT.compute_rays_fancy(Position(*origin), Area(*area)))
        if as_t(got) != unc:
            return f'history {seq}: cached answer to query {QUERIES[qi]} differs from the uncached computation'
        if unc != truth[qi]:
            return (f'history {seq}: the answer to query {QUERIES[qi]} at step {i} differs from the answer to the same query before '
                    f'the history started (earlier queries{" - one with an origin outside its area -" if any(q >= VALID_QUERIES for q in seq[:i]) else ""} changed it)')
        for ray in got:
            m = ray_law(ray, origin, area)
            if m:
                return f'history {seq}: cached ray invalid: {m}'
        covered = {p.yx for ray in got for p in ray}
        want = {(y, x) for y in range(area[0][0], area[0][1] + 1) for x in range(area[1][0], area[1][1] + 1)}
        if covered != want:
            return f'history {seq}: the fan for query {QUERIES[qi]} misses cells {sorted(want - covered)[:6]}'
    return None


def _work(job):
    items, which = job
    n = fans = 0
    fails = []
    done = []
    first = {}
    for area, origin in items:
        _LAST[0] = None
        k, m = judge_fan(area, origin, which)
        first[(area, origin)] = _LAST[0]
        n += k
        fans += 1
        done.append((area, origin))
        if m and len(fails) < 3:
            fails.append({'kind': 'fan', 'area': area, 'origin': origin, 'which': which, 'history': list(done),
                          'message': f'{which} fan, area {area}, origin {origin}: {m}', 'sig': {'fn': which},
                          'simplicity': (area[0][1] - area[0][0] + 1) * (area[1][1] - area[1][0] + 1)})
    # second pass: every query of this job again, oldest first (more than 128 distinct queries have been made in between for
    # the larger jobs): the cached answer must still be the uncached one
    if which == 'fancy':
        for area, origin in items:
            if first.get((area, origin)) is None:
                continue
            again = tuple(tuple(p.yx for p in r) for r in RT.cached_compute_rays_fancy(Position(*origin), Area(*area)))
            n += 1
            if again != first[(area, origin)] and len(fails) < 3:
                fails.append({'kind': 'fan', 'area': area, 'origin': origin, 'which': which, 'history': list(done) + [(a, o) for a, o in items],
                              'message': f'cached fan for area {area}, origin {origin} differs from the uncached one when asked again after '
                              f'{len(items)} other queries', 'sig': {'fn': 'cache_second_pass'}, 'simplicity': 0})
                break
    return n, fans, fails


def judge_large_floor(h, w):
    """an unobstructed ray-traced view shows everything - also for view sizes with 128 / 256 / 512 rays"""
    for origin in ((h - 1, w // 2), (0, 0), (h // 2, w // 2)):
        for kw in ({}, {'absolute_counts': False, 'threshold': 1}):
            vis = np.asarray(VF['raytracing'](Grid.from_shape((h, w)), Position(*origin), **kw))
            if vis.shape != (h, w) or not vis.all():
                hidden = [(int(y), int(x)) for y, x in zip(*np.where(~vis))][:4]
                return f'unobstructed {h}x{w} ray-traced view from {origin} {kw or ""} does not show cells {hidden}'
    return None


def judge_visibility_histories():
    """ray-traced views are a function of the grid's CURRENT value and of nothing else: (1) a door of a grid that was already
    looked at is opened in place (what actuate_door does) - the now unobstructed view shows everything, like a freshly built
    equal grid; (2) a view handed out earlier is not changed by later queries of the same shape"""
    from gym_gridverse.grid_object import Color, Door, Wall
    from ..choice import ChoiceRng
    n = 0
    for h, w, dpos, origin in ((5, 5, (2, 2), (4, 2)), (3, 7, (1, 3), (2, 3)), (7, 7, (5, 3), (6, 3)), (4, 4, (1, 1), (3, 0))):
        for kw in ({}, {'absolute_counts': False, 'threshold': 1}):
            g = Grid.from_shape((h, w))
            g[Position(*dpos)] = Door(Door.Status.CLOSED, Color.RED)
            v0 = np.array(VF['raytracing'](g, Position(*origin), **kw), copy=True)
            VF['stochastic_raytracing'](g, Position(*origin), rng=ChoiceRng([], random_fill=0.5))
            g[Position(*dpos)].state = Door.Status.OPEN
            fresh = Grid.from_shape((h, w))
            fresh[Position(*dpos)] = Door(Door.Status.OPEN, Color.RED)
            for name, call in (('raytracing', lambda gg: VF['raytracing'](gg, Position(*origin), **kw)),
                               ('stochastic_raytracing', lambda gg: VF['stochastic_raytracing'](gg, Position(*origin), rng=ChoiceRng([], random_fill=1 - 1e-9)))):
                n += 1
                v1, vf = np.asarray(call(g)), np.asarray(call(fresh))
                if not vf.all():
                    return n, f'{name}: unobstructed {h}x{w} view (open door at {dpos}) from {origin} does not show everything'
                if not np.array_equal(v1, vf):
                    hidden = [(int(y), int(x)) for y, x in zip(*np.where(~v1))][:4]
                    return n, (f'{name} {kw or ""}: a door at {dpos} of a grid that had been looked at was opened in place; the now unobstructed '
                               f'{h}x{w} view from {origin} still hides {hidden} (a freshly built equal grid shows everything)')
    # (2) retained results
    for h, w, origin in ((7, 7, (6, 3)), (3, 5, (2, 2)), (5, 5, (2, 2))):
        for kw in ({}, {'absolute_counts': False, 'threshold': 1}):
            held = []
            for walls in ((), ((h - 2, x) for x in range(w)), ((y, w // 2) for y in range(h - 1)), ()):
                g = Grid.from_shape((h, w))
                for c in walls:
                    if tuple(c) != origin:
                        g[Position(*c)] = Wall()
                v = VF['raytracing'](g, Position(*origin), **kw)
                held.append((v, np.array(v, copy=True)))
                n += 1
            for v, snap in held:
                if not np.array_equal(np.asarray(v), snap):
                    return n, (f'raytracing {kw or ""}: a {h}x{w} view handed out earlier was overwritten by a later query of the same shape '
                               f'(the unobstructed view no longer shows everything)')
    return n, None


def replay(case):
    if case['kind'] == 'visibility_histories':
        return judge_visibility_histories()[1]
    if case['kind'] == 'large_floor':
        return judge_large_floor(case['h'], case['w'])
    if case['kind'] == 'fan_history':
        msg = None
        for area, origin in case['history']:
            msg = judge_fan(tuple(map(tuple, area)), tuple(origin), case['which'])[1]
        return msg
    if case['kind'] == 'fan':
        return judge_fan(tuple(map(tuple, case['area'])), tuple(case['origin']), case['which'])[1]
    if case['kind'] == 'history':
        return judge_history(case['seq'])
    if case['kind'] == 'history_chain':
        msg = None
        for seq in case['seqs']:
            msg = judge_history(list(seq))
        return msg
    raise ValueError(case['kind'])


def run(rep, tier, seed):
    maxdim = 7 if tier == 'quick' else 9
    items = []
    for h in range(1, maxdim + 1):
        for w in range(1, maxdim + 1):
            for off in {(0, 0), (-h + 1, -(w // 2))}:
                area = ((off[0], off[0] + h - 1), (off[1], off[1] + w - 1))
                for y in range(area[0][0], area[0][1] + 1):
                    for x in range(area[1][0], area[1][1] + 1):
                        items.append((area, (y, x)))
    # one job (= one fresh process) per (width, offset kind, pair of consecutive heights): ALL origins of an area are queried in the
    # same process, in order, so that cache-key collisions between neighbouring origins / areas are exercised
    groups = {}
    for it in items:
        area = it[0]
        hgt = area[0][1] - area[0][0] + 1
        # heights 2k and 2k+1 together (their offset areas start at -(2k-1) and -2k: -1/-2, -3/-4 ... neighbours)
        groups.setdefault((area[1][1] - area[1][0] + 1, area[0][0] == 0 and area[1][0] == 0, hgt // 2), []).append(it)
    jobs = [(g, 'fancy') for g in sorted(groups.values(), key=len, reverse=True)]
    # one "cache pressure" job: more distinct queries than the cache holds (128), then all of them again, oldest first
    big = [it for it in items if (it[0][0][1] - it[0][0][0] + 1, it[0][1][1] - it[0][1][0] + 1) in ((7, 7), (6, 7), (7, 6)) and it[0][0][0] != 0]
    jobs.insert(0, (big, 'fancy'))
    if tier != 'quick':
        small = [it for it in items if (it[0][0][1] - it[0][0][0] + 1) <= 5 and (it[0][1][1] - it[0][1][0] + 1) <= 5]
        jobs += [(small[i::64], 'plain') for i in range(64)]
    rn = fans = 0
    fails = []
    for n, f, fl in dyn.pmap_w('work', _work, jobs):
        rn += n
        fans += f
        fails.extend(fl)
    def floor_work(hw):
        m = judge_large_floor(*hw)
        return [{'kind': 'large_floor', 'h': hw[0], 'w': hw[1], 'message': m, 'sig': {'fn': 'raytracing_all_floor'}, 'simplicity': 0}] if m else []

    for fl in pmap(floor_work, [(15, 15), (7, 31), (31, 7), (3, 63), (1, 127), (1, 255), (15, 31), (9, 12)]):
        fails.extend(fl)
    seqs = [list(seq) for d in range(1, 5) for seq in itertools.product(range(len(QUERIES)), repeat=d)]
    hn = len(seqs)

    def hist_work(chunk):
        out = []
        for seq in chunk:
            m = judge_history(seq)
            if m:
                # only the FIRST failure of this (fresh) process: nothing it depends on happened before its own history
                out.append({'kind': 'history', 'seq': seq, 'message': m, 'sig': {'fn': 'cache'}, 'simplicity': len(seq),
                            'chain': [list(q) for q in chunk[:chunk.index(seq) + 1]]})
                break
        return out

    for fl in pmap(hist_work, [seqs[i::32] for i in range(32)], fresh=True):
        fails.extend(fl)
    vk, vm = judge_visibility_histories()
    if vm:
        fails.append({'kind': 'visibility_histories', 'message': vm, 'sig': {'fn': 'raytracing', 'part': 'visibility_histories'}, 'simplicity': 0})
    rep.part('visibility_histories', evaluations=vk)
    fails.sort(key=lambda f: f.get('simplicity', 0))
    # a fan that fails during the exploration but not in isolation depends on the queries made before it in the process
    # (a cache serving the wrong entry): its replay is the query history of its job
    fixed = []
    for f in fails:
        chain = f.pop('chain', None)
        if f['kind'] == 'history' and chain and len(chain) > 1 and not replay(f):
            # the histories that ran before it in its (fresh) process are part of its history
            f = {'kind': 'history_chain', 'seqs': chain, 'message': f['message'] + f' [only after the {len(chain) - 1} query histories that '
                 'ran before it in the same process: an earlier query changed the answers for good]',
                 'sig': dict(f['sig'], history_dependent=True), 'simplicity': f.get('simplicity', 0)}
        hist = f.pop('history', None)
        if f['kind'] == 'fan' and not replay(f) and hist:
            g = {'kind': 'fan_history', 'which': f['which'], 'history': hist, 'message': f['message'] + ' [only after the earlier '
                 f'queries of its job ({len(hist) - 1} fans): the answer depends on the order of earlier ray queries]',
                 'sig': dict(f['sig'], history_dependent=True), 'simplicity': f.get('simplicity', 0)}
            if f.get('wjob') is not None:
                g['wjob'] = f['wjob']
            fixed.append(g)
        else:
            fixed.append(f)
    dyn.report_fails(rep, fixed, replay)
    rep.bounds = {'area_sizes': f'1..{maxdim} x 1..{maxdim}', 'offsets': ['(0,0)', '(-h+1, -w//2)'], 'origins': 'every cell',
                  'cache_histories': f'all sequences up to length 4 over {len(QUERIES)} queries'}
    rep.part('fans', fans=fans, rays=rn)
    rep.part('cache_histories', histories=hn)
    rep.sample({'kind': 'fan', 'area': [[-6, 0], [-3, 3]], 'origin': [0, 0], 'which': 'fancy'})
    rep.sample({'kind': 'history', 'seq': [0, 2, 0, 1]})
    return rep.finish(
        states=fans,
        transitions=rn + hn,
        validated=rn + hn,
        evaluations=rn + hn,
        distinct_nontrivial=fans - 2,
        rule='case = one (area, origin) fan with every ray checked, or one cache history; non-trivial = all fans except '
        'the 1x1 areas',
    )


WORKERS = {'work': _work}

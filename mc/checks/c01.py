"""C01 -- every step from a valid state is a valid transition (closure and totality).

(a) E1 universe through a real GridWorld (debug checks on): every built-in transition function alone and the
    full chain, summed built-in rewards, any/all termination; next state in the reference state space, reward a
    finite real, done a boolean; precondition-bearing rewards evaluated where applicable; observations of all
    four observation functions inside the declared observation space.
(b) E3: all reachable states of the shipped configurations (+ the coin example): no exception, membership.
(c) actions outside the action space are rejected with ValueError and change nothing.
(d) the membership predicates accept exactly the conforming states/observations (single-fault mutants).
"""
import copy
import math
from functools import partial

import numpy as np

from gym_gridverse.action import Action
from gym_gridverse.agent import Agent
from gym_gridverse.envs import observation_functions as OF
from gym_gridverse.envs import reward_functions as RW
from gym_gridverse.envs import terminating_functions as TM
from gym_gridverse.envs.gridworld import GridWorld
from gym_gridverse.geometry import Area, Orientation, Position, Shape
from gym_gridverse.grid import Grid
from gym_gridverse.grid_object import (Beacon, Box, Color, Door, Exit, Floor, Hidden, Key, MovingObstacle,
                                       NoneGridObject, Telepod, Wall)
from gym_gridverse.observation import Observation
from gym_gridverse.spaces import ActionSpace, ObservationSpace, StateSpace
from gym_gridverse.state import State

from .. import configs, dyn, reach
from .. import refmodel as R
from .. import rewards as RR
from .. import universe as U
from ..choice import ChoiceRng, explore
from ..desc import NONE, mk, mkobs, mkstate, sdesc, tup
from ..pool import pmap
from .c12 import is_number

ALL_TYPES = [Floor, Wall, Exit, Door, Key, MovingObstacle, Box, Telepod, Beacon]
ALL_NAMES = [t.__name__ for t in ALL_TYPES]
ALL_COLORS = list(Color)
OBS_AREA = ((-2, 0), (-1, 1))

_envs = {}


def make_env(shape, names, actions=None):
    key = (shape, tuple(names), actions)
    if key in _envs:
        return _envs[key]
    ss = StateSpace(Shape(*shape), ALL_TYPES, ALL_COLORS)
    osp = ObservationSpace(Shape(3, 3), ALL_TYPES, ALL_COLORS)
    acts = ActionSpace(list(Action) if actions is None else [Action[a] for a in actions])
    rewards = [RW.factory(n, **RR.real_kwargs(kw)) for n, kw in (
        ('living_reward', {}), ('reach_exit', {}), ('bump_into_wall', {}), ('bump_moving_obstacle', {}),
        ('actuate_door', {}), ('pickndrop', {'object_type': 'Key'}), ('overlap', {'object_type': 'Telepod'}))]
    terms = [TM.factory(n, **RR.real_kwargs(kw)) for n, kw in (
        ('reach_exit', {}), ('bump_into_wall', {}), ('bump_moving_obstacle', {}), ('overlap', {'object_type': 'Beacon'}))]
    env = GridWorld(
        ss, acts, osp,
        reset_function=lambda *, rng=None: mkstate((tuple(tuple(U.FLOOR for _ in range(shape[1])) for _ in range(shape[0])), 0, 0, 'F', NONE)),
        transition_function=dyn.chain_fn(names),
        observation_function=OF.factory('fully_transparent', area=Area(*OBS_AREA)),
        reward_function=RW.factory('reduce_sum', reward_functions=rewards),
        termination_function=TM.factory('reduce_any', terminating_functions=terms),
    )
    env2 = copy.copy(env)
    env2._termination_function = TM.factory('reduce_all', terminating_functions=terms)
    _envs[key] = (env, env2)
    return _envs[key]


PRECOND_REWARDS = [
    ('getting_closer', {'object_type': 'Exit'}),
    ('getting_closer', {'object_type': 'Key', 'distance_function': 'euclidean'}),
    ('getting_closer_shortest_path', {'object_type': 'Exit'}),
    ('proportional_to_distance', {'object_type': 'Exit'}),
    ('reach_exit_memory', {}),
]
_pre = {}


def pre_reward(i):
    if i not in _pre:
        n, kw = PRECOND_REWARDS[i]
        _pre[i] = RW.factory(n, **RR.real_kwargs(kw))
    return _pre[i]


def revealed_ok(rows):
    return all(o[0] in ALL_NAMES for row in rows for o in row)


def judge(names, s, a):
    """one functional_step per random outcome through a real GridWorld"""
    shape = R.shape(s[0])
    env, env_all = make_env(shape, names)
    st = mkstate(s)
    sig = {'front': dyn.front_class(s), 'action': a}
    if a in R.MOVES:
        v = R.move_vec(s[3], a)
        sig['target'] = 'inside' if R.inside(s[0], (s[1] + v[0], s[2] + v[1])) else 'outside'
    results = []

    def run(rng):
        env._rng = rng
        try:
            return env.functional_step(st, dyn.ACT[a])
        except Exception as e:  # noqa: BLE001
            return ('EXC', type(e).__name__, str(e)[:200])

    n = 0
    for choices, res, _ in explore(run, max_runs=64):
        n += 1
        if isinstance(res[0], str):
            return n, True, f'functional_step({"+".join(names)}, {a}) raised {res[1]}: {res[2]} (script {choices})', sig
        st2, reward, done = res
        k2 = sdesc(st2)
        if not R.ref_state_member(k2, shape, ALL_NAMES):
            return n, True, (f'{"+".join(names)} on {a}: next state left the state space: agent {(k2[1], k2[2])} '
                             f'shape {R.shape(k2[0])} held {k2[4][0]} (script {choices})'), sig
        if not is_number(reward) or not isinstance(float(reward), float):
            return n, True, f'{"+".join(names)} on {a}: reward {reward!r} is not a finite real number', sig
        if not isinstance(done, (bool, np.bool_)):
            return n, True, f'{"+".join(names)} on {a}: termination flag {done!r} is not boolean', sig
        results.append((k2, st2))
    if sdesc(st) != s:
        return n, True, f'{"+".join(names)} on {a}: functional_step modified its input state', sig
    if n > 1:
        # the same step in an environment that was never seeded (the functions fall back to the library-level generator,
        # re-seeded here so that the step is reproducible): totality and closure do not depend on set_seed()
        from gym_gridverse.rng import reset_gv_rng
        reset_gv_rng(len(results))
        env._rng = None
        try:
            st2, reward, done = env.functional_step(st, dyn.ACT[a])
        except Exception as e:  # noqa: BLE001
            return n + 1, True, (f'functional_step({"+".join(names)}, {a}) of an environment that was never seeded raised '
                                 f'{type(e).__name__}: {e}'), dict(sig, unseeded=True)
        if n < 64 and sdesc(st2) not in [k for k, _ in results]:
            return n + 1, True, (f'{"+".join(names)} on {a}: the unseeded environment produced a next state that no scripted '
                                 f'random outcome produces'), dict(sig, unseeded=True)
    # reduce_all termination, and the precondition-bearing rewards, on the first outcome
    if results:
        k2, st2 = results[0]
        env_all._rng = ChoiceRng([])
        try:
            _, r2, d2 = env_all.functional_step(st, dyn.ACT[a])
            if not isinstance(d2, (bool, np.bool_)):
                return n, True, f'reduce_all termination returned {d2!r}', sig
        except Exception as e:  # noqa: BLE001
            return n, True, f'functional_step with reduce_all termination raised {type(e).__name__}: {e}', sig
        for i, (name, kw) in enumerate(PRECOND_REWARDS):
            if RR.precondition(name, kw, s, k2):
                try:
                    v = pre_reward(i)(st, dyn.ACT[a], st2)
                except Exception as e:  # noqa: BLE001
                    return n, True, f'reward {name}{kw} raised {type(e).__name__}: {e} on a state meeting its precondition', dict(sig, component=name)
                if not is_number(v):
                    return n, True, f'reward {name}{kw} returned {v!r}', dict(sig, component=name)
    nontrivial = sig['front'] == 'outside' or R.nonfloor_count(s[0]) > 0
    return n, nontrivial, None, sig


_worker = dyn.make_worker(judge, uses_held=lambda names: len(names) > 1 or names[0] in ('pickndrop', 'actuate_door'))


# ---------------------------------------------------------------- observations in the declared space
OBS_FUNCS = ['fully_transparent', 'partially_occluded', 'raytracing', 'stochastic_raytracing']
OBS_AREAS = [((-2, 0), (-1, 1)), ((-1, 0), (0, 0)), ((-3, 0), (-2, 2)), ((0, 0), (-1, 1)), ((-2, 0), (0, 2)),
             ((-1, 0), (-3, 1)), ((-1, 1), (-1, 1)), ((0, 2), (0, 0)), ((-2, 1), (-2, 0))]
_obs_cache = {}


def obs_fn(name, area):
    key = (name, area)
    if key not in _obs_cache:
        h, w = area[0][1] - area[0][0] + 1, area[1][1] - area[1][0] + 1
        _obs_cache[key] = (OF.factory(name, area=Area(*area)), ObservationSpace(Shape(h, w), ALL_TYPES, ALL_COLORS), (h, w))
    return _obs_cache[key]


def judge_obs(s):
    st = mkstate(s)
    n = 0
    for area in OBS_AREAS:
        for name in OBS_FUNCS:
            if name == 'partially_occluded' and area[0][1] != 0:
                continue  # documented precondition: agent on the bottom row of the view
            fn, space, shp = obs_fn(name, area)
            fills = (0.0, 0.999999) if name == 'stochastic_raytracing' else (0.5,)
            for fill in fills:
                n += 1
                sig = {'observation_function': name}
                try:
                    o = fn(st, rng=ChoiceRng([], random_fill=fill))
                except Exception as e:  # noqa: BLE001
                    return n, f'{name} area {area} raised {type(e).__name__}: {e}', sig
                d = sdesc(o)
                want = R.ref_obs_member(d, shp, ALL_NAMES, [c.value for c in ALL_COLORS])
                try:
                    got = space.contains(o)
                except Exception as e:  # noqa: BLE001
                    return n, f'ObservationSpace.contains raised {type(e).__name__}: {e}', sig
                if not want:
                    return n, f'{name} area {area}: observation outside the reference observation space', sig
                if not got:
                    return n, f'{name} area {area}: ObservationSpace.contains rejects the observation', sig
    if sdesc(st) != s:
        return n, 'an observation function modified the state', {'observation_function': 'any'}
    return n, None, {}


def _obs_work(job):
    shape, i, parts = job
    n = states = 0
    fails = []
    for j, rows in enumerate(U.grids(shape, dyn.SIGMAS['full'], 1)):
        if j % parts != i:
            continue
        for y, x, h in U.poses(shape):
            for held in ((NONE, U.key(U.C2)) if (y, x) == (0, 0) else (NONE,)):
                s = (rows, y, x, h, held)
                k, msg, sig = judge_obs(s)
                n += k
                states += 1
                if msg and len(fails) < 3:
                    fails.append({'kind': 'obs', 's': s, 'message': msg, 'sig': sig})
    return n, states, fails


# ---------------------------------------------------------------- (c) rejected actions
NON_ACTIONS = [0, None, 'MOVE_FORWARD', 7]
SIX = ('MOVE_FORWARD', 'MOVE_BACKWARD', 'MOVE_LEFT', 'MOVE_RIGHT', 'TURN_LEFT', 'TURN_RIGHT')


_reject_envs = {}


def reject_env(shape):
    """a GridWorld with a restricted action space, stochastic dynamics AND a stochastic observation function"""
    if shape not in _reject_envs:
        env, _ = make_env(shape, dyn.CHAIN_FULL, actions=SIX)
        e = copy.copy(env)
        e._observation_function = OF.factory('stochastic_raytracing', area=Area(*OBS_AREA))
        _reject_envs[shape] = e
    return _reject_envs[shape]


def judge_reject(s):
    shape = R.shape(s[0])
    env = reject_env(shape)
    n = 0
    from gym_gridverse.debugging import reset_gv_debug

    for bad, debug in [(b, d) for b in [Action.ACTUATE, Action.PICK_N_DROP] + NON_ACTIONS for d in (True, False)]:
        n += 1
        sig = {'part': 'reject', 'action': repr(bad), 'debug': debug}
        for call in ('functional_step', 'step'):
            reset_gv_debug(debug)
            st = mkstate(s)
            env.set_seed(5)
            env._state = st
            env._observation = None
            obs_before = env.observation  # the memoised observation of the current state (consumes randomness once)
            d_before = sdesc(obs_before)
            before_rng = copy.deepcopy(env._rng.bit_generator.state)
            try:
                if call == 'functional_step':
                    env.functional_step(st, bad)
                else:
                    env.step(bad)
            except ValueError:
                reset_gv_debug(True)
            except Exception as e:  # noqa: BLE001
                reset_gv_debug(True)
                return n, f'{call} with {bad!r} outside the action space raised {type(e).__name__}, expected ValueError', sig
            else:
                reset_gv_debug(True)
                return n, f'{call} accepted {bad!r}, which is outside the action space (debug flag {debug})', sig
            if sdesc(st) != s or env._state is not st:
                return n, f'rejected action {bad!r} changed the state', sig
            if env._rng.bit_generator.state != before_rng:
                return n, f'rejected action {bad!r} consumed randomness', sig
            obs_after = env.observation
            if sdesc(obs_after) != d_before or env._rng.bit_generator.state != before_rng:
                return n, f'rejected action {bad!r} ({call}) changed the current observation / consumed randomness on the next read', sig
    return n, None, {}


# ---------------------------------------------------------------- (d) membership predicates
SUB_TYPES = [Floor, Wall, Key, Door, Box]
SUB_NAMES = [t.__name__ for t in SUB_TYPES]
SUB_COLORS = [Color.NONE, Color.RED]


def state_mutants(s):
    rows, y, x, h, held = s
    H, W = R.shape(rows)
    yield 'original', s
    yield 'extra_row', (rows + (rows[0],), y, x, h, held)
    yield 'extra_col', (tuple(r + (r[0],) for r in rows), y, x, h, held)
    if H > 1:
        yield 'fewer_rows', (rows[:-1], min(y, H - 2), x, h, held)
    if W > 1:
        yield 'fewer_cols', (tuple(r[:-1] for r in rows), y, min(x, W - 2), h, held)
    for (yy, xx) in ((0, 0), (H - 1, W - 1)):
        yield 'undeclared_cell', (R._set(rows, (yy, xx), U.exit_(0)), y, x, h, held)
        yield 'undeclared_colour_cell', (R._set(rows, (yy, xx), U.key(U.C2)), y, x, h, held)
        yield 'hidden_cell', (R._set(rows, (yy, xx), ('Hidden', 0, 0, None)), y, x, h, held)
    for (yy, xx) in ((-1, x), (H, x), (y, -1), (y, W)):
        yield 'agent_outside', (rows, yy, xx, h, held)
    yield 'held_undeclared', (rows, y, x, h, U.telepod(U.C1))
    yield 'held_undeclared_colour', (rows, y, x, h, U.key(U.C2))
    yield 'held_declared', (rows, y, x, h, U.key(U.C1))
    yield 'held_hidden', (rows, y, x, h, ('Hidden', 0, 0, None))


def judge_member(s):
    shape = R.shape(s[0])
    ss = StateSpace(Shape(*shape), SUB_TYPES, SUB_COLORS)
    n = 0
    for label, m in state_mutants(s):
        n += 1
        want = R.ref_state_member(m, shape, SUB_NAMES)
        try:
            got = ss.contains(mkstate(m))
        except Exception as e:  # noqa: BLE001
            return n, f'StateSpace.contains raised {type(e).__name__} on mutant {label}', {'part': 'member', 'mutant': label}
        if bool(got) != want:
            return n, f'StateSpace.contains = {got} on mutant {label}, reference {want}', {'part': 'member', 'mutant': label}
    # the predicate judges the VALUE it is given: one state object, checked, changed in place, checked again
    st = mkstate(s)
    n += 1
    if not ss.contains(st):
        return n, 'StateSpace.contains rejects a conforming state', {'part': 'member', 'mutant': 'inplace'}
    for label, edit in (('agent_outside', lambda o: setattr(o.agent, 'position', Position(-1, 0))),
                        ('undeclared_cell', lambda o: o.grid.objects[0].__setitem__(0, mk(U.exit_(0)))),
                        ('held_undeclared', lambda o: setattr(o.agent, 'grid_object', mk(U.telepod(U.C1))))):
        obj = mkstate(s)
        ss.contains(obj)
        edit(obj)
        n += 1
        if ss.contains(obj):
            return n, f'StateSpace.contains still accepts a state object after it was changed in place ({label})', {'part': 'member', 'mutant': 'inplace'}
        fixed = mkstate(s)
        edit(fixed)
        ss.contains(fixed)  # rejected while broken ...
        fixed.agent.position = Position(s[1], s[2])
        fixed.grid.objects[0][0] = mk(s[0][0][0])
        fixed.agent.grid_object = mk(s[4])
        n += 1
        if not ss.contains(fixed):  # ... and accepted once repaired in place
            return n, f'StateSpace.contains keeps rejecting a state object after it was repaired in place ({label})', {'part': 'member', 'mutant': 'inplace'}
    if shape[1] % 2 == 1:
        osp = ObservationSpace(Shape(*shape), SUB_TYPES, SUB_COLORS)
        for label, m in state_mutants(s):
            n += 1
            want = R.ref_obs_member(m, shape, SUB_NAMES, [c.value for c in SUB_COLORS])
            try:
                got = osp.contains(mkobs(m))
            except Exception as e:  # noqa: BLE001
                return n, f'ObservationSpace.contains raised {type(e).__name__} on mutant {label}', {'part': 'omember', 'mutant': label}
            if bool(got) != want:
                return n, f'ObservationSpace.contains = {got} on mutant {label}, reference {want}', {'part': 'omember', 'mutant': label}
    return n, None, {}


SUB_SIGMA = [U.WALL, U.key(U.C1), U.door(1, U.C1), U.door(0, 0), U.box(U.key(U.C1))]


def _member_work(job):
    shape, i, parts = job
    n = states = 0
    fails = []
    for j, rows in enumerate(U.grids(shape, SUB_SIGMA, 2)):
        if j % parts != i:
            continue
        for y, x, h in U.poses(shape):
            if h not in ('F', 'L'):
                continue
            s = (rows, y, x, h, NONE)
            for fn, kind in ((judge_member, 'member'), (judge_reject, 'reject')):
                if kind == 'reject' and (h != 'F' or (y, x) not in ((0, 0), (R.shape(rows)[0] - 1, R.shape(rows)[1] - 1))):
                    continue
                k, msg, sig = fn(s)
                n += k
                if msg and len(fails) < 3:
                    fails.append({'kind': kind, 's': s, 'message': msg, 'sig': sig})
            states += 1
    return n, states, fails


# ---------------------------------------------------------------- (b) shipped configurations
def make_hooks(env, name):
    ss, osp = env.state_space, env.observation_space
    names = [t.__name__ for t in ss.object_types]
    onames = [t.__name__ for t in osp.object_types]
    shape = (ss.grid_shape.height, ss.grid_shape.width)
    oshape = (osp.grid_shape.height, osp.grid_shape.width)
    ocolors = [c.value for c in osp.colors]

    def on_state(k, st, g):
        if not R.ref_state_member(k, shape, names):
            return 'reachable state outside the declared state space'
        if not ss.contains(st):
            return 'StateSpace.contains rejects a reachable state'
        env._rng = ChoiceRng([])
        try:
            o = env.functional_observation(st)
        except Exception as e:  # noqa: BLE001
            return f'functional_observation raised {type(e).__name__}: {e}'
        if not R.ref_obs_member(sdesc(o), oshape, onames, ocolors):
            return 'observation of a reachable state outside the declared observation space'
        return None

    def on_edge(k, st, a, choices, k2, st2, reward, done, g):
        if not is_number(reward):
            return f'reward {reward!r} is not a finite real number'
        if not isinstance(done, (bool, np.bool_)):
            return f'termination flag {done!r} is not boolean'
        return None

    return on_state, on_edge


def replay(case):
    if case['kind'] == 'job':
        return dyn.replay_job(case, _worker)
    kind = case['kind']
    if kind == 'step':
        return judge(tuple(case['names']), tup(case['s']), case['a'])[2]
    if kind == 'obs':
        return judge_obs(tup(case['s']))[1]
    if kind == 'member':
        return judge_member(tup(case['s']))[1]
    if kind == 'reject':
        return judge_reject(tup(case['s']))[1]
    if kind == 'reach':
        return reach.replay_trace(case, make_hooks)
    raise ValueError(kind)


CHAINS_LO = [dyn.CHAIN_FULL] + [(n,) for n in dyn.SINGLES]
CHAINS_HI = [dyn.CHAIN_FULL]


def run(rep, tier, seed):
    from gym_gridverse.debugging import reset_gv_debug

    reset_gv_debug(True)
    if tier == 'quick':
        plan = []
        for sh in U.SHAPES_SMALL:
            plan.append(dict(shape=sh, sigma='full', k=1, held='small', chains=[dyn.CHAIN_FULL], actions=R.ACTIONS))
            if sh[0] * sh[1] <= 6:
                plan.append(dict(shape=sh, sigma='full', k=1, held='two', chains=[(n,) for n in dyn.SINGLES], actions=R.ACTIONS))
                plan.append(dict(shape=sh, sigma='obj5', k=2, held='two', chains=[dyn.CHAIN_FULL], actions=R.ACTIONS, only_k=2))
        # three or four telepods (any mix of two colours): a valid state the shipped levels never contain
        for sh in ((1, 3), (2, 2), (2, 3)):
            for kk in (3, 4):
                if kk <= sh[0] * sh[1]:
                    plan.append(dict(shape=sh, sigma='tele2', k=kk, held='none', chains=[dyn.CHAIN_FULL, ('teleport',)],
                                     actions=R.ACTIONS[:2] + R.ACTIONS[6:7], only_k=kk))
    else:
        plan = dyn.standard_plan(tier, CHAINS_LO, CHAINS_HI, held_lo='small', held_hi='two', sigma_hi='reduced')
        # every ordered pair of distinct built-in transition functions (composition order matters for closure)
        pairs = [(a, b) for a in dyn.SINGLES for b in dyn.SINGLES if a != b]
        for sh in U.SHAPES_SMALL:
            if sh[0] * sh[1] <= 6:
                plan.append(dict(shape=sh, sigma='full', k=1, held='two', chains=pairs, actions=R.ACTIONS))
    for e in plan:
        e['cost'] = 4  # relative cost of one case (job sizing)
    tot = dyn.run_universe(rep, plan, _worker, replay)
    shapes = U.SHAPES_SMALL if tier == 'quick' else U.SHAPES_MID
    jobs = [(sh, i, 8 if sh[0] * sh[1] >= 6 else 1) for sh in shapes for i in range(8 if sh[0] * sh[1] >= 6 else 1)]
    on = ostates = 0
    fails = []
    for n, states, fl in dyn.pmap_w('obs', _obs_work, jobs):
        on += n
        ostates += states
        fails.extend(fl)
    rep.part('observations', states=ostates, evaluations=on, functions=OBS_FUNCS, areas=len(OBS_AREAS))
    mshapes = [(1, 1), (1, 3), (2, 2), (2, 3), (3, 3)] if tier == 'quick' else U.SHAPES_MID
    mjobs = [(sh, i, 8 if sh[0] * sh[1] >= 6 else 1) for sh in mshapes for i in range(8 if sh[0] * sh[1] >= 6 else 1)]
    mn = mstates = 0
    for n, states, fl in dyn.pmap_w('member', _member_work, mjobs):
        mn += n
        mstates += states
        fails.extend(fl)
    rep.part('membership_and_rejection', states=mstates, evaluations=mn,
             mutants='shape +-1, undeclared type/colour cell, Hidden cell, agent outside on each side, held item undeclared',
             rejected=[repr(b) for b in [Action.ACTUATE, Action.PICK_N_DROP] + NON_ACTIONS])
    dyn.report_fails(rep, fails, replay)
    rep.sample({'kind': 'member', 's': (((U.FLOOR, U.WALL, U.key(U.C1)),), 0, 0, 'F', NONE), 'note': 'with all single-fault mutants'})
    if tier == 'quick':
        names, init_limit, max_states, gcap = configs.SMALL + ['crossing.7x7', 'four_rooms.7x7', 'memory_four_rooms.7x7',
                                                               'teleport.7x7', 'keydoor.7x7', 'empty.8x8'], 150, 5000, 4
    else:
        names, init_limit, max_states, gcap = configs.SMALL + ['crossing.7x7', 'four_rooms.7x7', 'memory_four_rooms.7x7', 'keydoor.7x7'], 200, 6000, 4
    rs, rt = dyn.run_reach(rep, names, init_limit, max_states, make_hooks, replay, 'closure', group_cap=gcap, lineages=2)
    rep.assume('compositions: each built-in transition function alone and the full chain; rewards = reduce_sum of all '
               'precondition-free built-ins (+ precondition-bearing ones where their precondition holds); termination = '
               'reduce_any and reduce_all of the built-ins; custom components out of scope')
    return rep.finish(
        states=tot['states'] + ostates + mstates + rs,
        transitions=tot['exec'] + rt,
        validated=tot['exec'] + rt,
        evaluations=tot['exec'] + on + mn + rt,
        distinct_nontrivial=tot['nontrivial'] + mstates,
        rule='universe case = (grid, pose, held, function/chain, action) run through GridWorld.functional_step for every '
        'random outcome; non-trivial = front cell outside the grid or a grid with non-floor cells; membership cases '
        'are each state with all its single-fault mutants',
    )


WORKERS = {'obs': _obs_work, 'member': _member_work}

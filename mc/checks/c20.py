"""C20 -- the gym adapter is a faithful view of the wrapped environment.

Every shipped configuration wrapped directly (GymEnvironment(OuterEnv(..))) and through every registered id
(gym.make(id) and spec.entry_point(**kwargs)); all action-index sequences up to depth D, with a reset inserted
at every position and the representation switched at every position; GymStateWrapper on top.  Oracle: a twin
inner environment (same file, same seed) stepped with action_space.actions[i].
"""
import itertools

import gym
import numpy as np

import gym_gridverse.gym as GG
from gym_gridverse.outer_env import OuterEnv
from gym_gridverse.representations.observation_representations import make_observation_representation
from gym_gridverse.representations.state_representations import make_state_representation

from .. import configs, dyn, envs
from ..pool import pmap

REPS = ['default', 'no-overlap', 'compact']


def arrays_equal(a, b):
    return isinstance(a, dict) and set(a) == set(b) and all(
        isinstance(a[k], np.ndarray) and np.array_equal(a[k], b[k]) and a[k].dtype == b[k].dtype for k in a)


def spaces_equal(gs, inner_space):
    want = GG.outer_space_to_gym_space(inner_space)
    if set(gs.spaces) != set(want.spaces):
        return False
    for k in want.spaces:
        a, b = gs.spaces[k], want.spaces[k]
        if a.shape != b.shape or a.dtype != b.dtype or not np.array_equal(a.low, b.low) or not np.array_equal(a.high, b.high):
            return False
    return True


def build(kind, ident):
    """returns (gym-level env, GymEnvironment, yaml path)"""
    if kind == 'direct':
        path = dict(configs.all_configs())[ident]
        inner = configs.build(path)
        srep = make_state_representation('default', inner.state_space) if inner.state_space.can_be_represented else None
        ge = GG.GymEnvironment(OuterEnv(inner, state_representation=srep,
                                        observation_representation=make_observation_representation('default', inner.observation_space)))
        return ge, ge, path
    spec = gym.spec(ident)
    path = spec.kwargs['factory'].args[0]
    if kind == 'make':
        e = gym.make(ident, disable_env_checker=True)
        return e, e.unwrapped, path
    from gym.envs.registration import load

    ep = load(spec.entry_point) if isinstance(spec.entry_point, str) else spec.entry_point
    e = ep(**spec.kwargs)
    return e, e, path


_built = {}


def rebuilt(x):
    """an equal state / observation built from scratch: the expected arrays are computed from an object that carries
    nothing along from earlier conversions or steps"""
    from gym_gridverse.state import State
    from ..desc import mkobs, mkstate, sdesc
    try:
        return mkstate(sdesc(x)) if isinstance(x, State) else mkobs(sdesc(x))
    except Exception:  # noqa: BLE001 -- object types the descriptor layer does not know: use the object itself
        return x


def default_codes(rows):
    """the documented default encoding of a grid, computed by the harness: (type index, status, colour value) per cell"""
    from gym_gridverse.grid_object import grid_object_registry
    idx = {t.__name__: i for i, t in enumerate(list(grid_object_registry))}
    return np.array([[[idx[o[0]], o[1], o[2]] for o in row] for row in rows], int)


def default_mismatch(arrays, x):
    """message if the default-representation arrays of state / observation x disagree with the harness encoding"""
    from ..desc import sdesc
    k = sdesc(x)
    try:
        want = default_codes(k[0])
    except KeyError:
        return None  # an object type the harness does not know by name
    got = np.asarray(arrays['grid'])
    if got.shape != want.shape or not np.array_equal(got, want):
        bad = [(int(y), int(xx)) for y, xx in zip(*np.where((got != want).any(axis=2)))][:3] if got.shape == want.shape else 'shape'
        return f'grid entries at {bad} are not (type index, status, colour) of the cells, e.g. {[(got[y][xx].tolist(), want[y][xx].tolist()) for y, xx in bad][:2] if bad != "shape" else ""}'
    item = default_codes(((k[4],),))[0][0]
    if not np.array_equal(np.asarray(arrays['item']), item):
        return f'item entry {np.asarray(arrays["item"]).tolist()} is not the code {item.tolist()} of the held object'
    return None


def door_sequences(ident, seed, extra=2):
    """operation sequences that drive a key-and-door configuration through picking the key up and opening the door
    (breadth-first search over the real functional_step from the seeded initial state), then `extra` more steps"""
    from ..desc import sdesc
    env = configs.build(dict(configs.all_configs())[ident])
    env.set_seed(seed)
    env.reset()
    start = env.state
    actions = list(env.action_space.actions)

    def door_open(k):
        return any(o[0] == 'Door' and o[1] == 0 for row in k[0] for o in row)

    seen = {sdesc(start): None}
    frontier = [(start, [])]
    found = None
    while frontier and found is None and len(seen) < 20000:
        nxt = []
        for st, path in frontier:
            for i, a in enumerate(actions):
                st2, _, done = env.functional_step(st, a)
                k2 = sdesc(st2)
                if k2 in seen or done:
                    continue
                seen[k2] = True
                if door_open(k2):
                    found = path + [i]
                    break
                nxt.append((st2, path + [i]))
            if found is not None:
                break
        frontier = nxt
    if found is None:
        return []
    out = []
    for tail in itertools.product(range(len(actions)), repeat=extra):
        if tail[0] in (0,) or tail == (4, 5):
            out.append([('reset',)] + [('step', i) for i in found] + [('step', i) for i in tail])
    out.append([('reset',)] + [('step', i) for i in found] + [('srep', 'compact'), ('step', 0), ('srep', 'default'), ('step', 0)])
    return out


def judge_sequence(kind, ident, seed, ops, wrap_state=False, reuse=False):
    key = (kind, ident)
    if reuse and key in _built:
        top, ge, path, twin = _built[key]
        for e in (ge.outer_env.inner_env, twin):
            e._state = None
            e._observation = None
        had_state = ge.outer_env.state_representation is not None
        ge.set_observation_representation('default')
        if had_state and kind == 'direct':
            ge.set_state_representation('default')
        elif kind != 'direct':
            ge.outer_env.state_representation = None
            ge.state_space = None
    else:
        top, ge, path = build(kind, ident)
        twin = configs.build(path)
        _built[key] = (top, ge, path, twin)
    if not isinstance(ge, GG.GymEnvironment):
        return f'{kind} {ident}: not a GymEnvironment'
    inner = ge.outer_env.inner_env
    inner.set_seed(seed)
    twin.set_seed(seed)
    actions = list(twin.action_space.actions)
    if top.action_space.n != len(actions) or list(inner.action_space.actions) != actions:
        return f'{kind} {ident}: gym action space has {top.action_space.n} actions, the configuration {len(actions)}'
    oname, sname = 'default', 'default'
    if wrap_state:
        if ge.outer_env.state_representation is None:
            ge.set_state_representation('default')
        top = GG.GymStateWrapper(ge)
    started = False
    retained = []

    def snap(d):
        return {k: np.array(v, copy=True) for k, v in d.items()} if isinstance(d, dict) else d

    for i, op in enumerate(ops):
        where = f'{kind} {ident} seed {seed}: operation {i} {op} of {ops}'
        orep = make_observation_representation(oname, twin.observation_space)
        srep = make_state_representation(sname, twin.state_space) if twin.state_space.can_be_represented else None
        if op[0] == 'orep':
            # with the state wrapper on top, the switch is requested on the wrapper itself (forwarded to the environment)
            (top if wrap_state else ge).set_observation_representation(op[1])
            oname = op[1]
            if not spaces_equal(ge.observation_space, make_observation_representation(oname, twin.observation_space).space):
                return f'{where}: advertised observation space was not updated consistently'
            if started:
                cur = ge.observation
                want_cur = make_observation_representation(oname, twin.observation_space).convert(rebuilt(twin.observation))
                if not arrays_equal(cur, want_cur) or not ge.observation_space.contains(cur):
                    return f'{where}: after the switch the current observation is not in the new representation / advertised space'
            continue
        if op[0] == 'srep':
            if srep is None:
                continue
            ge.set_state_representation(op[1])
            sname = op[1]
            if not spaces_equal(ge.state_space, make_state_representation(sname, twin.state_space).space):
                return f'{where}: advertised state space was not updated consistently'
            if started:
                cur = ge.state
                if not arrays_equal(cur, make_state_representation(sname, twin.state_space).convert(rebuilt(twin.state))) or not ge.state_space.contains(cur):
                    return f'{where}: after the switch the current state is not in the new representation / advertised space'
            if wrap_state:
                # the wrapper's space is fixed at construction (documented: wraps the env as is); re-wrap
                top = GG.GymStateWrapper(ge)
            continue
        if op[0] == 'reset':
            out = top.reset()
            # returned arrays are snapshotted at once: computing the expected values below calls the same library
            # conversions, which must not be able to overwrite what was already handed out
            retained.append((out, snap(out), where))
            out = snap(out)
            twin.reset()
            started = True
            obs, reward, done, info = out, None, None, None
        else:
            if not started:
                continue
            out = top.step(op[1])
            if not (isinstance(out, tuple) and len(out) == 4):
                return f'{where}: step returned {type(out).__name__} of length {len(out) if hasattr(out, "__len__") else "?"}'
            retained.append((out[0], snap(out[0]), where))
            if isinstance(out[3], dict) and 'observation' in out[3]:
                retained.append((out[3]['observation'], snap(out[3]['observation']), where + ' info[observation]'))
            out = (snap(out[0]), out[1], out[2], {k: (snap(v) if isinstance(v, dict) else v) for k, v in out[3].items()} if isinstance(out[3], dict) else out[3])
            tr, td = twin.step(actions[op[1]])
            obs, reward, done, info = out
            if reward != tr or bool(done) != bool(td) or isinstance(reward, bool):
                return f'{where}: step returned reward/done ({reward}, {done}), the wrapped environment gives ({tr}, {td})'
        want_obs = orep.convert(rebuilt(twin.observation))
        if oname == 'default':
            dm = default_mismatch(want_obs if wrap_state else obs, twin.observation)
            if not wrap_state and dm:
                return f'{where}: returned observation [default]: {dm}'
            if wrap_state and op[0] == 'step' and isinstance(info, dict) and isinstance(info.get('observation'), dict):
                dm = default_mismatch(info['observation'], twin.observation)
                if dm:
                    return f'{where}: info["observation"] [default]: {dm}'
        if wrap_state and sname == 'default':
            dm = default_mismatch(obs, twin.state)
            if dm:
                return f'{where}: state wrapper output [default]: {dm}'
        if wrap_state:
            want_state = srep.convert(rebuilt(twin.state))
            if not arrays_equal(obs, want_state):
                return f'{where}: the state wrapper did not return the state representation of the current state'
            if not top.observation_space.contains(obs):
                return f'{where}: state wrapper output outside its advertised space'
            if op[0] == 'step':
                if not (isinstance(info, dict) and arrays_equal(info.get('observation'), want_obs)):
                    return f'{where}: info["observation"] is not the observation representation'
                if set(info) != {'observation'}:
                    return f'{where}: unexpected info keys {sorted(info)}'
        else:
            if not arrays_equal(obs, want_obs):
                return (f'{where}: returned observation is not the representation of the wrapped environment\'s '
                        f'{"post-step" if op[0] == "step" else "fresh"} observation')
            if not top.observation_space.contains(obs):
                return f'{where}: returned observation outside the advertised observation space'
            if op[0] == 'step' and info != {}:
                return f'{where}: info is {info!r}, expected an empty dict'
        if not arrays_equal(ge.observation, want_obs):
            return f'{where}: the observation property differs from the representation of the current observation'
        if srep is not None and ge.outer_env.state_representation is not None:
            if not arrays_equal(ge.state, srep.convert(rebuilt(twin.state))):
                return f'{where}: gym-level state is not the representation of the inner state'
            if ge.state_space is not None and not ge.state_space.contains(ge.state):
                return f'{where}: gym-level state outside the advertised state space'
    for original, copy_, where in retained:
        if isinstance(original, dict) and not arrays_equal(original, copy_):
            return f'{where}: arrays handed out earlier were overwritten by later calls (aliased buffers)'
    return None


def judge_wrapper_without_state(kind, ident, seed):
    """a state wrapper around an environment that has no state representation cannot return states: it must fail loudly,
    not hand back observations"""
    top, ge, path = build(kind, ident)
    if ge.outer_env.state_representation is not None:
        ge.outer_env.state_representation = None
        ge.state_space = None
    ge.outer_env.inner_env.set_seed(seed)
    try:
        w = GG.GymStateWrapper(ge)
        out = w.reset()
    except Exception:  # noqa: BLE001 -- any loud failure is acceptable
        return None
    orep = make_observation_representation('default', ge.outer_env.inner_env.observation_space)
    if isinstance(out, dict) and arrays_equal(out, orep.convert(ge.outer_env.inner_env.observation)):
        return f'{kind} {ident}: GymStateWrapper without a state representation silently returns the OBSERVATION representation from reset()'
    return f'{kind} {ident}: GymStateWrapper without a state representation returned {type(out).__name__} from reset() instead of failing'


def judge_two_of_one_id(kind, ident, seed):
    """two live environments made from the same id are independent: each follows its own twin"""
    if kind == 'direct':
        return None
    e1, g1, path = build(kind, ident)
    e2, g2, _ = build(kind, ident)
    if g1.outer_env is g2.outer_env or g1.outer_env.inner_env is g2.outer_env.inner_env:
        return f'{kind} {ident}: two environments made from the same id share one underlying environment'
    t1, t2 = configs.build(path), configs.build(path)
    for g, t, sd in ((g1, t1, seed), (g2, t2, seed + 5)):
        g.outer_env.inner_env.set_seed(sd)
        t.set_seed(sd)
    actions = list(t1.action_space.actions)
    orep = {}
    plan = [(1, 'reset'), (2, 'reset'), (1, 0), (2, 'compact'), (2, 1), (1, 2), (2, 0), (1, 'reset'), (2, 3), (1, 1)]
    names = {1: 'default', 2: 'default'}
    for who, op in plan:
        e, g, t = (e1, g1, t1) if who == 1 else (e2, g2, t2)
        if op == 'reset':
            out = e.reset()
            t.reset()
        elif isinstance(op, str):
            g.set_observation_representation(op)
            names[who] = op
            continue
        else:
            out = e.step(op)[0]
            t.step(actions[op])
        out = {k: np.array(v, copy=True) for k, v in out.items()}
        want = make_observation_representation(names[who], t.observation_space).convert(t.observation)
        if not arrays_equal(out, want):
            return f'{kind} {ident}: environment #{who} of two made from the same id no longer follows its own seed/representation (operation {op})'
        if not g.observation_space.contains(out):
            return f'{kind} {ident}: environment #{who} returns observations outside the space it advertises (operation {op})'
    return None


def sequences(n_actions, depth, variants):
    """base action-index sequences of length `depth` and their variants (reset / representation switch at each position)"""
    for base in itertools.product(range(n_actions), repeat=depth):
        steps = [('step', i) for i in base]
        yield [('reset',)] + steps
        if variants:
            for p in range(1, depth + 1):
                yield [('reset',)] + steps[:p] + [('reset',)] + steps[p:]
            for p in range(0, depth + 1):
                for name in REPS[1:]:
                    yield [('reset',)] + steps[:p] + [('orep', name)] + steps[p:]
            yield [('orep', 'compact'), ('srep', 'no-overlap'), ('reset',)] + steps
            yield [('reset',)] + steps[:1] + [('srep', 'compact')] + steps[1:] + [('srep', 'no-overlap'), ('orep', 'no-overlap')]
            yield steps[:1] + [('reset',)] + steps


def _work(job):
    kind, ident, seed, depth, variants, wrap, part, parts = job
    top, ge, path = build(kind, ident)
    n_actions = top.action_space.n
    n = ops = 0
    fails = []
    for j, seq in enumerate(sequences(n_actions, depth, variants)):
        if j % parts != part:
            continue
        n += 1
        ops += len(seq)
        try:
            m = judge_sequence(kind, ident, seed, seq, wrap_state=wrap, reuse=(n > 1))
        except Exception as e:  # noqa: BLE001
            m = f'{kind} {ident}: sequence {seq} raised {type(e).__name__}: {e}'
        if m and len(fails) < 2:
            fails.append({'kind': 'seq', 'wrap': kind, 'ident': ident, 'seed': seed, 'ops': seq, 'wrap_state': wrap,
                          'message': m, 'sig': {'ident': ident, 'wrap': kind, 'state_wrapper': wrap}, 'simplicity': len(seq)})
    return n, ops, fails


def replay(case):
    if case['kind'] == 'wrapper_no_state':
        return judge_wrapper_without_state(case['wrap'], case['ident'], case['seed'])
    if case['kind'] == 'two_of_one_id':
        return judge_two_of_one_id(case['wrap'], case['ident'], case['seed'])
    try:
        return judge_sequence(case['wrap'], case['ident'], case['seed'], [tuple(o) for o in case['ops']], wrap_state=case['wrap_state'])
    except Exception as e:  # noqa: BLE001
        return f'raised {type(e).__name__}: {e}'


def run(rep, tier, seed):
    base = seed * 389 + 5
    names = [n for n, _ in configs.all_configs()]
    ids = list(GG.env_ids)
    jobs = []
    deep = ['keydoor.5x5', 'teleport.5x5', 'dynamic_obstacles.5x5'] if tier == 'quick' else ['keydoor.5x5', 'teleport.5x5',
                                                                                             'dynamic_obstacles.5x5', 'memory.5x5', 'crossing.5x5', 'empty.4x4']
    D = 3 if tier == 'quick' else 4
    for name in names:
        d = D if name in deep else (2 if tier == 'quick' else 3)
        if max(int(x) for x in name.split('.')[1].split('x')) >= 9 and tier == 'quick':
            d = 1
        parts = 16 if d >= 3 else 2
        for part in range(parts):
            jobs.append(('direct', name, base, d, True, False, part, parts))
        jobs.append(('direct', name, base + 1, 1, True, True, 0, 1))
    for ident in ids:
        for kind in ('make', 'entry_point'):
            d = 1 if tier == 'quick' else 2
            jobs.append((kind, ident, base, d, True, False, 0, 1))
    for name in deep:
        for part in range(8):
            jobs.append(('direct', name, base + 2, 2, True, True, part, 8))
    jobs.sort(key=lambda j: -(8 ** j[3]) / j[7])
    n = ops = 0
    fails = []
    for k, o, fl in dyn.pmap_w('work', _work, jobs):
        n += k
        ops += o
        fails.extend(fl)
    dn = 0
    for ident in [nm for nm in names if nm.startswith('keydoor') and (tier != 'quick' or nm in ('keydoor.5x5', 'keydoor.7x7'))]:
        for sd in (base, base + 1):
            for seq in door_sequences(ident, sd):
                for wrap in (False, True):
                    dn += 1
                    ops += len(seq)
                    try:
                        m = judge_sequence('direct', ident, sd, seq, wrap_state=wrap)
                    except Exception as e:  # noqa: BLE001
                        m = f'direct {ident}: sequence {seq} raised {type(e).__name__}: {e}'
                    if m and len([f for f in fails if f['sig'].get('part') == 'door_sequences']) < 2:
                        fails.append({'kind': 'seq', 'wrap': 'direct', 'ident': ident, 'seed': sd, 'ops': seq, 'wrap_state': wrap,
                                      'message': m, 'sig': {'ident': ident, 'wrap': 'direct', 'state_wrapper': wrap, 'part': 'door_sequences'},
                                      'simplicity': len(seq)})
    n += dn
    rep.part('door_sequences', sequences=dn, rule='shortest action path from the seeded initial state to an opened door (search over the '
             'real functional_step), followed by further steps / state-representation switches; with and without the state wrapper')
    extra_n = 0
    for kind, idents in (('direct', names[:6]), ('make', ids), ('entry_point', ids)):
        for ident in idents:
            for fn, label in ((judge_wrapper_without_state, 'wrapper_no_state'), (judge_two_of_one_id, 'two_of_one_id')):
                extra_n += 1
                try:
                    m = fn(kind, ident, base + 9)
                except Exception as e:  # noqa: BLE001
                    m = f'{kind} {ident}: {label} raised {type(e).__name__}: {e}'
                if m:
                    fails.append({'kind': label, 'wrap': kind, 'ident': ident, 'seed': base + 9, 'message': m,
                                  'sig': {'part': label, 'wrap': kind}, 'simplicity': 0})
    rep.part('wrapper_and_multi_env', cases=extra_n)
    fails.sort(key=lambda f: f['simplicity'])
    dyn.report_fails(rep, fails, replay)
    rep.bounds = {'direct_configs': len(names), 'registered_ids': len(ids), 'depth_deep_configs': D, 'deep_configs': deep,
                  'variants': 'reset inserted at every position, observation representation switched to each other name at every '
                  'position, representations switched before the first reset, steps before reset', 'seeds': [base, base + 1, base + 2]}
    rep.part('sequences', sequences=n, operations=ops)
    rep.sample({'kind': 'seq', 'wrap': 'make', 'ident': ids[0], 'seed': base, 'ops': [['reset'], ['step', 2], ['orep', 'compact'], ['step', 0]]})
    rep.exhaustive = False
    rep.assume('seed() and render() at the gym layer are out of scope (gym version in this image has no seeding.create_seed, no display); '
               'environments are seeded through the inner environment')
    rep.assume('gym.make is called with disable_env_checker=True (the passive checker of gym 0.26 is incompatible with numpy 2)')
    return rep.finish(
        states=n,
        transitions=ops,
        validated=ops,
        evaluations=ops,
        distinct_nontrivial=n,
        rule='case = one operation sequence (action indices, resets, representation switches) on a gym-level environment and '
        'on a twin inner environment with the same seed; every returned value is compared',
    )


WORKERS = {'work': _work}

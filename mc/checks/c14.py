"""C14 -- every initial state is winnable.

Initial states: every random outcome (or every outcome with <= d non-default draws) of each reset function at
each valid parameter point.  From each, a search over ALL histories of the real GridWorld.functional_step
(the transition chain and termination the shipped configuration of that reset function uses; every random
outcome of the dynamics is a branch; terminal states are not expanded) must reach the rewarded goal.
Initial states sharing a grid share one explored graph; winnability = backward closure from the goal states.
"""
from functools import partial

from gym_gridverse.action import Action
from gym_gridverse.envs import observation_functions as OF
from gym_gridverse.envs import reset_functions as RSF
from gym_gridverse.envs import reward_functions as RW
from gym_gridverse.envs import terminating_functions as TM
from gym_gridverse.envs.gridworld import GridWorld
from gym_gridverse.geometry import Area, Shape
from gym_gridverse.grid_object import Color
from gym_gridverse.spaces import ActionSpace, ObservationSpace, StateSpace

from .. import dyn, reach
from .. import refmodel as R
from .. import resets as RS
from ..choice import ChoiceRng
from ..desc import FLOOR, mkstate, sdesc, tup
from ..pool import pmap, replay_in_new_interpreter
from .c01 import ALL_COLORS, ALL_TYPES

SIX = [Action.MOVE_FORWARD, Action.MOVE_BACKWARD, Action.MOVE_LEFT, Action.MOVE_RIGHT, Action.TURN_LEFT, Action.TURN_RIGHT]
DYNAMICS = {
    'empty': (dyn.CHAIN_NAV, 'exit', SIX),
    'rooms': (dyn.CHAIN_NAV, 'exit', SIX),
    'crossing': (dyn.CHAIN_NAV, 'exit', SIX),
    'memory': (dyn.CHAIN_NAV, 'exit', SIX),
    'memory_rooms': (dyn.CHAIN_NAV, 'exit', SIX),
    'dynamic_obstacles': (dyn.CHAIN_OBST, 'obst', SIX),
    'keydoor': (dyn.CHAIN_KEYDOOR, 'exit', list(Action)),
    'teleport': (dyn.CHAIN_TELEPORT, 'exit', SIX),
}
_envs = {}


def make_env(name, shape, variant=None):
    key = (name, tuple(shape), variant)
    if key not in _envs:
        chain, term, actions = DYNAMICS[name]
        if variant == 'obstacle_rivers':
            term = 'obst'  # rivers made of moving obstacles terminate the episode when stepped on
        if term == 'exit':
            tf = TM.factory('reach_exit')
        else:
            tf = TM.factory('reduce_any', terminating_functions=[TM.factory('reach_exit'), TM.factory('bump_moving_obstacle'),
                                                                  TM.factory('bump_into_wall')])
        _envs[key] = GridWorld(
            StateSpace(Shape(*shape), ALL_TYPES, ALL_COLORS), ActionSpace(actions), ObservationSpace(Shape(3, 3), ALL_TYPES, ALL_COLORS),
            reset_function=None, transition_function=dyn.chain_fn(chain),
            observation_function=OF.factory('fully_transparent', area=Area((-2, 0), (-1, 1))),
            reward_function=RW.factory('living_reward'), termination_function=tf)
    return _envs[key]


def is_goal(name, k2):
    c = R.cell(k2)
    if c[0] != 'Exit':
        return False
    if name in ('memory', 'memory_rooms'):
        b = R.find_all(k2[0], 'Beacon')
        return bool(b) and c[2] == k2[0][b[0][0]][b[0][1]][2]
    return True


def keydoor_filter(k, actions):
    """sound pruning for an existence search: once the key is held it is never dropped"""
    if k[4][0] == 'Key':
        return [a for a in actions if a is not Action.PICK_N_DROP]
    return actions


def search(name, shape, init_keys, pruned=True, max_states=60000, dev_bound=None, variant=None):
    """explore from all init states (same static grid); returns (winnable set of init keys, graph stats, succ map, dist)"""
    env = make_env(name, shape, variant)
    pred, succ, goals = {}, {}, set()

    def on_edge(k, st, a, choices, k2, st2, reward, done, g):
        pred.setdefault(k2, []).append(k)
        succ.setdefault(k, []).append((a.name, choices, k2))
        if done and is_goal(name, k2):
            goals.add(k2)
        return None

    filt = keydoor_filter if (pruned and name == 'keydoor') else None
    g, problems = reach.bfs(env, [mkstate(k) for k in init_keys], on_edge=on_edge, max_states=max_states, action_filter=filt,
                            dev_bound=dev_bound)
    dist = {k: 0 for k in goals}
    frontier = list(goals)
    while frontier:
        nxt = []
        for k in frontier:
            for p in pred.get(k, ()):
                if p not in dist:
                    dist[p] = dist[k] + 1
                    nxt.append(p)
        frontier = nxt
    return dist, g, succ, problems


def witness(succ, dist, k):
    path = []
    while dist[k] > 0:
        a, choices, k2 = min((e for e in succ[k] if e[2] in dist), key=lambda e: dist[e[2]])
        path.append((a, choices))
        k = k2
    return path, k


def variant_of(name, params):
    return 'obstacle_rivers' if name == 'crossing' and params.get('object_type') == 'MovingObstacle' else None


def validate_witness(name, params, script, path):
    """replay reset + path through the stateful interface of a fresh environment"""
    env = make_env(name, params['shape'], variant_of(name, params))
    env = GridWorld(env.state_space, env.action_space, env.observation_space,
                    reset_function=lambda *, rng=None: RS.call(name, params, rng),
                    transition_function=env._transition_function, observation_function=env._observation_function,
                    reward_function=env._reward_function, termination_function=env._termination_function)
    # the environment object has already been through an earlier episode from the same initial state that was ended at
    # once (each first action in turn): winnability must not depend on what the object did before
    for a0 in list(env.action_space.actions):
        env._rng = ChoiceRng(script)
        env.reset()
        env._rng = ChoiceRng([])
        env.step(a0)
    env._rng = ChoiceRng(script)
    env.reset()
    done = False
    for a, choices in path:
        if done:
            return 'witness passes through a terminating state'
        env._rng = ChoiceRng(choices)
        _, done = env.step(Action[a])
    if not (done and is_goal(name, sdesc(env.state))):
        return 'replayed witness does not end on the goal'
    return None


def strip_wrong_exits(name, k):
    rows = k[0]
    b = R.find_all(rows, 'Beacon')
    good = rows[b[0][0]][b[0][1]][2] if b else None
    new = tuple(tuple(FLOOR if (o[0] == 'Exit' and o[2] != good) else o for o in row) for row in rows)
    return (new,) + k[1:]


def judge_point(name, params, limit):
    outs, info = RS.outcomes(name, params, limit)
    st = {'inits': 0, 'groups': 0, 'states': 0, 'transitions': 0, 'witnesses': 0, 'complete': 1 if info['complete'] else 0,
          'valid': 0, 'capped': 0}
    fails = []
    groups = {}
    for choices, res in outs:
        if isinstance(res, tuple):
            continue
        k = sdesc(res)
        gk = k[0] if name != 'keydoor' else reach.scenery_key(k)
        groups.setdefault(gk, {}).setdefault(k, choices)
    if not groups:
        return st, fails
    st['valid'] = 1
    for gk, inits in groups.items():
        st['groups'] += 1
        st['inits'] += len(inits)
        stochastic = name in ('dynamic_obstacles', 'teleport')
        # existence search: explore the dynamics' random outcomes with 0 deviations first (sound pruning: a witness
        # found there is a real execution); widen to 1 deviation and then to all outcomes before reporting anything
        for db in ((0, 1, None) if stochastic else (None,)):
            dist, g, succ, problems = search(name, params['shape'], list(inits), dev_bound=db, variant=variant_of(name, params))
            st['states'] += len(g.parent)
            st['transitions'] += g.transitions
            lost = [k for k in inits if k not in dist]
            if not lost and not g.capped:
                break
        if g.capped:
            st['capped'] += 1
            continue
        if lost and name == 'keydoor':
            dist, g, succ, problems = search(name, params['shape'], list(inits), pruned=False, max_states=400000)
            st['states'] += len(g.parent)
            st['transitions'] += g.transitions
            lost = [] if g.capped else [k for k in inits if k not in dist]
        for k in lost[:2]:
            cause = 'unreachable'
            if name in ('memory', 'memory_rooms'):
                k_open = strip_wrong_exits(name, k)
                d2, g2, _, _ = search(name, params['shape'], [k_open])
                if k_open in d2:
                    cause = 'blocked_by_wrong_exit'
            fails.append({'kind': 'win', 'name': name, 'params': params, 'script': inits[k], 's': k,
                          'message': f'{name}({_fmt(params)}) reset script {inits[k]}: the goal cannot be reached from this '
                          f'initial state ({cause}; {len(g.parent)} states searched)',
                          'sig': {'reset': name, 'cause': cause}})
        # validate one witness per group through the stateful interface
        for k in inits:
            if k in dist:
                path, _ = witness(succ, dist, k)
                m = validate_witness(name, params, inits[k], path)
                st['witnesses'] += 1
                if m:
                    fails.append({'kind': 'witness', 'name': name, 'params': params, 'script': inits[k], 's': k, 'path': [[a, c] for a, c in path],
                                  'message': f'{name}({_fmt(params)}) reset script {inits[k]}: a winning action sequence found on the functional '
                                  f'interface fails through env.reset/step on an environment object that ran an episode before: {m}',
                                  'sig': {'reset': name, 'cause': 'stateful_replay'}})
                break
    return st, fails


def _fmt(params):
    return ', '.join(f'{k}={v}' for k, v in params.items())


def points(tier):
    maxdim = 7 if tier == 'quick' else 9
    shapes = [(h, w) for h in range(3, maxdim + 1) for w in range(3, maxdim + 1)]
    if tier == 'quick':
        shapes = [s for s in shapes if max(s) <= 5 or s in ((6, 6), (7, 7), (5, 7), (7, 5), (4, 6), (6, 4), (3, 7), (7, 4))]
    pts = []
    RGBY = ('RED', 'GREEN', 'BLUE', 'YELLOW')
    for sh in shapes:
        for ra in (False, True):
            for re_ in (False, True):
                pts.append(('empty', {'shape': sh, 'random_agent': ra, 'random_exit': re_}))
        for lay in ((1, 1), (1, 2), (2, 1), (2, 2), (3, 3), (1, 3), (3, 1), (2, 3)):
            pts.append(('rooms', {'shape': sh, 'layout': lay}))
        for nob in (0, 1, 2):
            if nob == 2 and sh[0] * sh[1] > 30 and tier == 'quick':
                continue
            pts.append(('dynamic_obstacles', {'shape': sh, 'num_obstacles': nob, 'random_agent': nob == 1}))
        pts.append(('keydoor', {'shape': sh}))
        for nr in (1, 2, 5):
            pts.append(('crossing', {'shape': sh, 'num_rivers': nr, 'object_type': 'Wall'}))
        # rivers of a non-blocking, terminating object type: the openings are then the only safe way across
        pts.append(('crossing', {'shape': sh, 'num_rivers': 2, 'object_type': 'MovingObstacle'}))
        pts.append(('teleport', {'shape': sh}))
        pts.append(('memory', {'shape': sh, 'colors': RGBY}))
        for lay in ((1, 1), (1, 2), (2, 2), (3, 3), (3, 1)):
            for nb, ne in ((1, 2), (2, 3)):
                pts.append(('memory_rooms', {'shape': sh, 'layout': lay, 'colors': RGBY, 'num_beacons': nb, 'num_exits': ne}))
    return pts


def _work(job):
    pts, limit = job
    tot = {}
    fails = []
    for name, params, lim in pts:
        st, fl = judge_point(name, params, lim or limit)
        for k, v in st.items():
            tot[k] = tot.get(k, 0) + v
        tot['points'] = tot.get('points', 0) + 1
        tot.setdefault('per_reset', {}).setdefault(name, 0)
        tot['per_reset'][name] += st['inits']
        for f in fl:
            f['simplicity'] = params['shape'][0] * params['shape'][1]
        fails.extend(fl[:3])
    return tot, fails


def _job_fails(job):
    from ..desc import tup
    pts = [(n, {k: tup(v) for k, v in p.items()}, l) for n, p, l in job['pts']]
    return _work((pts, job['limit']))[1]


def replay(case):
    if case['kind'] == 'job':
        # the whole exploration job, in order (this is a fresh process when run from the command line)
        for g in _job_fails(case['job']):
            if dyn.same_case(case['inner'], g):
                return g['message']
        return None
    if case['kind'] == 'witness':
        params = {k: (tuple(v) if isinstance(v, list) else v) for k, v in case['params'].items()}
        return validate_witness(case['name'], params, case['script'], [(a, c) for a, c in case['path']])
    name, params = case['name'], {k: (tuple(v) if isinstance(v, list) else v) for k, v in case['params'].items()}
    res = RS.call(name, params, ChoiceRng(case['script']))
    if isinstance(res, tuple):
        return None
    k = sdesc(res)
    dist, g, succ, _ = search(name, params['shape'], [k], pruned=False, max_states=400000, variant=variant_of(name, params))
    if k in dist or g.capped:
        return None
    return 'the goal cannot be reached from this initial state'


def run(rep, tier, seed):
    limit = 48 if tier == 'quick' else 300
    pts = [(n, p, None) for n, p in points(tier)]
    shipped_limit = {5: 3000, 7: 500, 8: 200, 9: 120, 10: 40, 13: 16} if tier == 'quick' else {5: 30000, 7: 8000, 8: 1500, 9: 1200, 10: 200, 13: 60}
    for n, p in RS.SHIPPED:
        pts.append((n, p, shipped_limit.get(max(p['shape']), 40)))
    # big jobs first
    pts.sort(key=lambda t: -(t[2] or limit) * t[1]['shape'][0] * t[1]['shape'][1])
    jobs = [(pts[i::192], limit) for i in range(192)]
    tot = {}
    per_reset = {}
    fails = []
    for ji, (t, fl) in enumerate(pmap(_work, jobs, fresh=True)):
        for f in fl:
            # the points this job ran up to and including the failing one: the replay of a failure that depends on
            # what the process executed before it
            upto = [i for i, (n, p, _) in enumerate(jobs[ji][0]) if n == f.get('name') and p == f.get('params')]
            f['job'] = {'pts': [(n, p, l) for n, p, l in jobs[ji][0][:(upto[0] + 1 if upto else None)]], 'limit': limit}
        for k, v in t.items():
            if k == 'per_reset':
                for n, c in v.items():
                    per_reset[n] = per_reset.get(n, 0) + c
            else:
                tot[k] = tot.get(k, 0) + v
        fails.extend(fl)
    for f in fails:
        if f['kind'] == 'INTERNAL':
            raise SystemExit('INTERNAL: ' + f['message'])
    fails.sort(key=lambda f: f.get('simplicity', 0))
    dyn.report_fails(rep, fails, replay, limit_per_sig=3, job_replayer=lambda case: replay_in_new_interpreter('C14', case))
    rep.part('winnability', initial_states_per_reset=per_reset, **tot)
    rep.bounds = {'parameter_points': len(pts), 'valid_points': tot.get('valid', 0), 'outcome_limit_per_point': limit,
                  'shipped_point_limits_by_size': shipped_limit, 'max_shape': '7x7 + shipped' if tier == 'quick' else '9x9 + shipped'}
    if tot.get('complete', 0) < tot.get('points', 0):
        rep.cap(f"{tot['points'] - tot['complete']} of {tot['points']} points used deviation-bounded (<=2 non-default draws) initial states")
    if tot.get('capped'):
        rep.cap(f"{tot['capped']} groups hit the state cap and were not decided")
    rep.sample({'kind': 'win', 'name': 'keydoor', 'params': {'shape': [5, 5]}, 'script': [0, 1, 0, 0, 0, 1, 2]})
    rep.assume('dynamics per reset function = transition chain and termination of the shipped configuration using it; '
               'saturated obstacle fields (more than 2 obstacles) are not claimed')
    rep.assume('key-door search first uses a sound pruning (a held key is never dropped); a failure is re-searched without pruning')
    return rep.finish(
        states=tot.get('states', 0),
        transitions=tot.get('transitions', 0),
        validated=tot.get('transitions', 0) + tot.get('witnesses', 0),
        evaluations=tot.get('inits', 0),
        distinct_nontrivial=tot.get('inits', 0),
        rule='evaluation = one distinct initial state decided winnable/unwinnable by explicit search of the real step '
        'function (shared graph per static grid); all counted initial states are distinct',
    )

"""C05 -- observations are sound: they never show anything that is not there.

Labelled grids (every cell a distinct object) of every shape H,W in 1..4 (thorough 1..5) x opaque subsets x
every agent cell x 4 headings x every view area of the E1 family (108 areas, symmetric and not) x the 4
observation functions: every observation cell is Hidden or exactly the object at the world cell given by the
reference rigid transform; shape, anchor, heading and held item as specified.
"""
from .. import obs as O
from .. import refmodel as R
from .. import universe as U
from ..choice import ChoiceRng
from ..desc import NONE, mkstate, tup
from ..pool import pmap

import numpy as np


def area_list(tier):
    """(all areas, areas used for the occluding functions, areas used for the stochastic function)"""
    full = U.areas() + [U.SHIPPED_AREA]
    if tier != 'quick':
        return full, full, full
    occl = full
    stoch = U.areas(ymins=(-3, -1, 0), ymaxs=(0, 2), xmins=(-2, 0), xmaxs=(0, 3)) + [U.SHIPPED_AREA]
    return full, occl, stoch


def judge(s, area, name, seeds, st=None):
    st = st if st is not None else mkstate(s)
    n = 0
    if name == 'stochastic_raytracing':
        variants = [('fill', 1e-9), ('fill', 1 - 1e-9)] + [('seed', sd) for sd in seeds]
    else:
        variants = [('fill', 0.5)]
    for kind, v in variants:
        n += 1
        if kind == 'fill':
            o = O.observe(name, area, st, fill=v)
        else:
            o = O.observe(name, area, st, rng=np.random.default_rng(v))
        m = O.check_sound(name, area, s, o)
        if m:
            return n, f'{name} area {area} ({kind} {v}): {m}'
    return n, None


def judge_mutate(s, area, names):
    """observe a state, change that state object in place (Grid.swap, cell assignment on the corners of the viewed
    world rectangle, agent pose) and observe it again: the new observations must be sound for the NEW value"""
    from gym_gridverse.geometry import Position
    from ..desc import ORI, sdesc, mk

    st = mkstate(s)
    H, W = len(s[0]), len(s[0][0])
    n = 0
    for name in names:
        O.observe(name, area, st)
    # an observation that was handed out belongs to the caller: writing to it (its agent's pose, its cells) changes neither
    # the state nor anything a later observation is built from
    for name in names:
        try:
            raw = O.obs_fn(name, area)(st, rng=ChoiceRng([], random_fill=0.5))
        except Exception:  # noqa: BLE001 -- reported by judge()
            continue
        raw.agent.position = Position(raw.grid.shape.height - 1 - raw.agent.position.y, raw.grid.shape.width - 1 - raw.agent.position.x)
        raw.agent.orientation = ORI[R.TURN_RIGHT['F']]
        raw.agent.grid_object = mk(U.beacon(2))
        for p in list(raw.grid.area.positions()):
            raw.grid[p] = mk(U.beacon(1))
        n += 1
        if sdesc(st) != s:
            return n, f'{name} area {area}: writing to a returned observation changed the observed state', name
        for name2 in names:
            n += 1
            m = O.check_sound(name2, area, s, O.observe(name2, area, st, fill=0.5))
            if m:
                return n, f'{name2} area {area}: after writing to an observation returned earlier by {name}: {m}', name2
    # the same for what the visibility functions hand out: a mask of the view's shape is asked for directly and blanked in place
    from gym_gridverse.envs.visibility_functions import visibility_function_registry as _VF
    from gym_gridverse.grid import Grid as _Grid
    vh, vw = O.area_shape(area)
    for vname in ('fully_transparent', 'partially_occluded', 'raytracing'):
        if vname == 'partially_occluded' and not O.applicable(vname, area):
            continue
        try:
            mask = _VF[vname](_Grid.from_shape((vh, vw)), Position(-area[0][0], -area[1][0]))
            np.asarray(mask)[...] = False
        except Exception:  # noqa: BLE001 -- read-only or non-array results are fine
            continue
    for name2 in names:
        n += 1
        m = O.check_sound(name2, area, s, O.observe(name2, area, st, fill=0.5))
        if m:
            return n, f'{name2} area {area}: after a visibility mask handed out to a caller was blanked in place: {m}', name2
    cells = [(y, x) for y in range(H) for x in range(W)]
    (ymin, ymax), (xmin, xmax) = area
    corners = {c for c in (R.world_cell(s[1], s[2], s[3], dy, dx) for dy in (ymin, ymax) for dx in (xmin, xmax)) if R.inside(s[0], c)}
    edits = []
    if len(cells) >= 2:
        edits.append(('swap', cells[0], cells[-1]))
    for c in sorted(corners)[:4]:
        edits.append(('set', c, U.beacon(3)))
    edits.append(('pose', ((s[1] + 1) % H, (s[2] + 1) % W), R.TURN_RIGHT[s[3]]))
    for ei, e in enumerate(edits):
        if e[0] == 'swap':
            st.grid.swap(Position(*e[1]), Position(*e[2]))
        elif e[0] == 'set':
            st.grid[Position(*e[1])] = mk(e[2])
        else:
            st.agent.position = Position(*e[1])
            st.agent.orientation = ORI[e[2]]
        now = sdesc(st)
        if ei % 2 == 1 or len(edits) == 1:
            # another reader of the grid runs between the edit and the next look (a space membership test does this)
            st.grid.object_types()
        for name in names:
            n += 1
            m = O.check_sound(name, area, now, O.observe(name, area, st, fill=0.5))
            if m:
                return n, f'{name} area {area}: after an in-place {e[0]} of the observed state ({e[1:]}): {m}', name
    return n, None, None


LIFETIME_AREAS = [((-2, 0), (-1, 1)), ((-1, 0), (0, 0)), ((-3, 0), (-2, 2)), ((0, 0), (-1, 1)), ((-2, 0), (0, 2)),
                  ((-1, 0), (-3, 1)), ((-1, 1), (-1, 1)), ((0, 2), (0, 0)), ((-2, 1), (-2, 0)), ((-6, 0), (-3, 3))]


def judge_lifetimes(rounds, as_lists):
    """observation functions are built one after another, each with its own Area object (built from lists, as the
    configuration loader does, or from tuples), used on a few states and dropped: what a function shows depends on ITS
    area, not on the areas of functions that existed before it (their memory may be reused)"""
    from gym_gridverse.envs import observation_functions as OF
    from gym_gridverse.geometry import Area
    from ..desc import sdesc

    rows = U.labelled_grid((4, 3), {(1, 1)})
    states = [(rows, y, x, h, NONE) for y, x, h in ((3, 1, 'F'), (0, 0, 'R'), (2, 2, 'B'), (1, 0, 'L'))]
    n = 0
    for r in range(rounds):
        for i, area in enumerate(LIFETIME_AREAS):
            for name in O.ALL_FUNCS:
                if not O.applicable(name, area):
                    continue
                a = Area(list(area[0]), list(area[1])) if as_lists else Area(tuple(area[0]), tuple(area[1]))
                fn = OF.factory(name, area=a)
                for s in states:
                    n += 1
                    try:
                        o = sdesc(fn(mkstate(s), rng=ChoiceRng([], random_fill=0.5)))
                    except Exception as e:  # noqa: BLE001
                        o = ('EXC', type(e).__name__, str(e)[:200])
                    m = O.check_sound(name, area, s, o)
                    if m:
                        return n, (f'{name} built with its own Area object {area} ({"lists" if as_lists else "tuples"}; round {r}, after the '
                                   f'functions of the earlier areas were dropped): {m}')
                del fn, a
    return n, None


def judge_all(s, area, names, seeds):
    """all functions in `names` order on ONE state object (an observation must not depend on, nor disturb, the others)"""
    from ..desc import sdesc

    st = mkstate(s)
    n = 0
    for name in names:
        k, m = judge(s, area, name, seeds, st=st)
        n += k
        if m:
            return n, m, name
        if sdesc(st) != s:
            return n, f'{name} area {area}: computing the observation modified the state (so later observations of it are unsound)', name
    return n, None, None


def _work(job):
    shape, kmax, i, parts, areas, seeds, helds = job
    n = nontrivial = 0
    fails = []
    mine = [(sub, s) for j, (sub, s) in enumerate(O.labelled_states(shape, kmax, helds)) if j % parts == i]
    full, occl, stoch = areas
    # area-major iteration: the library caches ray fans per (origin, area) in a 128-entry LRU; iterating states
    # inside areas keeps the harness from thrashing it
    # the transparent function is evaluated first AND again after the occluding ones (an observation must not depend
    # on which observations were computed before it)
    for area in full:
        order = [nm for nm in O.ALL_FUNCS + ['fully_transparent'] if O.applicable(nm, area)
                 and not (nm in ('partially_occluded', 'raytracing') and area not in occl)
                 and not (nm == 'stochastic_raytracing' and area not in stoch)]
        for sub, s in mine:
            k, m, name = judge_all(s, area, order, seeds)
            n += k
            nontrivial += len(order)
            if m and len(fails) < 3:
                fails.append({'kind': 'obs_all', 's': s, 'area': area, 'names': order, 'seeds': list(seeds), 'message': m,
                              'sig': {'fn': name}})
            if not m and not sub and (s[1] + s[2]) % 2 == 0 and area in stoch:
                det = [nm for nm in order if nm != 'stochastic_raytracing']
                k, m, name = judge_mutate(s, area, det)
                n += k
                if m and len(fails) < 3:
                    fails.append({'kind': 'obs_mutate', 's': s, 'area': area, 'names': det, 'message': m, 'sig': {'fn': name, 'part': 'mutate'}})
    sample = None
    for sub, s in mine:
        if sub:
            sample = {'kind': 'obs', 's': s, 'area': occl[len(occl) // 2], 'name': 'raytracing'}
            break
    return n, len(mine), nontrivial, fails, sample


def replay(case):
    if case['kind'] == 'obs_lifetimes':
        return judge_lifetimes(case['rounds'], case['as_lists'])[1]
    if case['kind'] == 'obs_mutate':
        return judge_mutate(tup(case['s']), tup(case['area']), case['names'])[1]
    if case['kind'] == 'obs_all':
        return judge_all(tup(case['s']), tup(case['area']), case['names'], case.get('seeds', []))[1]
    return judge(tup(case['s']), tup(case['area']), case['name'], case.get('seeds', []))[1]


def run(rep, tier, seed):
    from .. import dyn

    seeds = (seed * 31 + 1,) if tier == 'quick' else (seed * 31 + 1, seed * 31 + 2, seed * 31 + 3)
    areas = area_list(tier)
    maxdim = 4 if tier == 'quick' else 5
    shapes = [(h, w) for h in range(1, maxdim + 1) for w in range(1, maxdim + 1)]
    jobs = []
    plan = []
    for sh in shapes:
        n = sh[0] * sh[1]
        if tier == 'quick':
            kmax = 1 if n > 6 else 2
        else:
            kmax = 3 if n <= 4 else 2 if n <= 9 else 1
        helds = (NONE, U.key(2), U.WALL, U.box(U.key(1)), U.beacon(3)) if n <= 2 else (NONE,)
        plan.append({'shape': list(sh), 'max_opaque_cells': kmax})
        cnt = sum(1 for _ in O.opaque_subsets(sh, kmax)) * n * 4
        parts = max(1, min(64, cnt // 40))
        for i in range(parts):
            jobs.append((sh, kmax, i, parts, areas, seeds, helds))
    rep.bounds = {'shapes': plan, 'areas': len(areas[0]), 'areas_occluding_functions': len(areas[1]), 'areas_stochastic_function': len(areas[2]), 'area_family': 'ymin in -3..0, ymax in 0..2, xmin in -3..0, xmax in 0..3, '
                  'plus the shipped 7x7 view', 'functions': O.ALL_FUNCS, 'stochastic_variants': f'two extreme scripted draws + {len(seeds)} numpy seeds'}
    tot = [0, 0, 0]
    fails = []
    for n, states, nt, fl, sample in dyn.pmap_w('work', _work, jobs):
        tot[0] += n
        tot[1] += states
        tot[2] += nt
        fails.extend(fl)
        if sample:
            rep.sample(sample, limit=3)
    ln = 0
    for as_lists in (True, False):
        k, m = judge_lifetimes(3 if tier == 'quick' else 8, as_lists)
        ln += k
        if m:
            fails.append({'kind': 'obs_lifetimes', 'rounds': 3 if tier == 'quick' else 8, 'as_lists': as_lists, 'message': m,
                          'sig': {'part': 'lifetimes'}})
    tot[0] += ln
    rep.part('function_lifetimes', observations=ln, areas=len(LIFETIME_AREAS), rule='one Area object per function, lists and tuples, built and dropped in sequence')
    dyn.report_fails(rep, fails, replay)
    rep.assume('partially_occluded is only exercised with the agent on the bottom row of the view (documented precondition)')
    return rep.finish(
        states=tot[1],
        transitions=tot[0],
        validated=tot[0],
        evaluations=tot[0],
        distinct_nontrivial=tot[2],
        rule='case = (labelled grid with a subset of opaque cells, pose, view area, observation function); each '
        'enumerated once; all are non-trivial in the sense that every cell of the view is compared with the world',
    )


WORKERS = {'work': _work}

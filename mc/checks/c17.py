"""C17 -- configurations build exactly the environment they describe, or are rejected.

(a) packaged copies byte-identical to yaml/; id table <-> packaged files is a bijection consistent with the id's
    name and size; every registered spec resolves to that file and builds a grid of the advertised size;
(b,c) every configuration built through factory_env_from_data AND factory_env_from_yaml runs in lockstep (all
    action sequences to depth D, several seeds) with an environment assembled by an independent hand-assembler;
(d) the input tree is unchanged by building; building is repeatable;
(e) every name of the six registries: factory(name, **kw) behaves like the registered function called with the
    accepted subset of kw; unaccepted parameters are ignored; missing required parameters / unknown names raise;
(f) systematic corruption: every single-point mutation from a fixed operator set at every node of every
    configuration tree is rejected with SchemaError/ValueError, or (optional parameter removed) builds the
    environment the hand-assembler builds from the same tree.
"""
import copy
import inspect
import itertools
import math
import os
import re

import gym
import numpy as np
from schema import SchemaError

import gym_gridverse.gym as GG
from gym_gridverse.action import Action
from gym_gridverse.envs import observation_functions as OF
from gym_gridverse.envs import reset_functions as RSF
from gym_gridverse.envs import reward_functions as RWF
from gym_gridverse.envs import terminating_functions as TMF
from gym_gridverse.envs import transition_functions as TRF
from gym_gridverse.envs import visibility_functions as VF
from gym_gridverse.envs.yaml.factory import factory_env_from_data, factory_env_from_yaml
from gym_gridverse.geometry import Area, Position, Shape
from gym_gridverse.grid_object import Color, Exit, Wall

from .. import assemble as ASM
from .. import boot, configs, dyn, envs
from .. import universe as U
from ..choice import ChoiceRng
from ..desc import NONE, mkgrid, mkstate, sdesc
from ..pool import pmap

REJECT = (SchemaError, ValueError)


# ---------------------------------------------------------------- lockstep comparison
def space_sig(env):
    ss, osp = env.state_space, env.observation_space
    return (
        ss.grid_shape.as_tuple, [t.__name__ for t in ss.object_types], sorted(c.name for c in ss.colors),
        [a.name for a in env.action_space.actions],
        osp.grid_shape.as_tuple, [t.__name__ for t in osp.object_types], sorted(c.name for c in osp.colors),
    )


def probe_spaces(a, b):
    """the two environments' membership predicates must agree on probe states/observations (agent holding each
    declared object, an undeclared object, agent outside)"""
    from gym_gridverse.grid_object import Beacon, Key, MovingObstacle, Telepod, Wall, Color

    for e in (a, b):
        e.set_seed(0)
    sa = a.functional_reset()
    for held in (None, Key(Color.YELLOW), Key(Color.RED), Wall(), Beacon(Color.RED), Telepod(Color.RED), MovingObstacle()):
        st = envs_copy(sa)
        if held is not None:
            st.agent.grid_object = held
        ca, cb = a.state_space.contains(st), b.state_space.contains(st)
        if ca != cb:
            return f'state spaces disagree on a state whose agent holds {type(held).__name__}: built {ca}, hand-assembled {cb}'
        oa, ob = a._observation_function(st, rng=ChoiceRng([])), b._observation_function(st, rng=ChoiceRng([]))
        ca, cb = a.observation_space.contains(oa), b.observation_space.contains(ob)
        if ca != cb:
            return f'observation spaces disagree on an observation whose agent holds {type(held).__name__}'
    return None


def envs_copy(state):
    from gym_gridverse.utils.fast_copy import fast_copy

    return fast_copy(state)


def directed_sequences(env, seed):
    """shortest action paths from the seeded initial state to every reachable cell, each followed by the object actions"""
    from collections import deque

    from .. import refmodel as R

    env.set_seed(seed)
    env._state = env._observation = None
    env.reset()
    s0 = sdesc(env.state)
    allowed = [x for x in env.action_space.actions]
    nav = [x for x in allowed if x.name.startswith(('MOVE', 'TURN'))]
    start = (s0[1], s0[2], s0[3])
    paths = {start: []}
    dq = deque([start])
    while dq:
        p = dq.popleft()
        for act in nav:
            st = (s0[0], p[0], p[1], p[2], s0[4])
            nx = R.ref_turn_agent(R.ref_move_agent(st, act.name), act.name)
            q = (nx[1], nx[2], nx[3])
            if q not in paths:
                paths[q] = paths[p] + [act]
                dq.append(q)
    extra = [x for x in allowed if x.name in ('PICK_N_DROP', 'ACTUATE')]
    out = []
    for q, path in paths.items():
        if extra:
            out.append(tuple(path + extra + nav[:1]))
        elif q[2] == 'F':
            out.append(tuple(path + nav[:1]))
    return out


def lockstep(a, b, seeds, depth, limit=None, directed=False):
    """message if the two inner environments differ on spaces or on any action sequence up to `depth`"""
    if space_sig(a) != space_sig(b):
        return f'spaces differ: {space_sig(a)} vs {space_sig(b)}'
    m = probe_spaces(a, b)
    if m:
        return m
    acts = list(a.action_space.actions)
    n = 0
    for sd in seeds:
        seqs = list(itertools.product(acts, repeat=depth))
        if directed:
            seqs += directed_sequences(a, sd)
        for seq in seqs:
            n += 1
            if limit and n > limit:
                return None
            for e in (a, b):
                e.set_seed(sd)
                e._state = e._observation = None
            a.reset()
            b.reset()
            if envs.snapshot(a) != envs.snapshot(b):
                return f'seed {sd}: initial state/observation differ'
            for i, act in enumerate(seq):
                ra, da = a.step(act)
                rb, db = b.step(act)
                sa, sb = envs.snapshot(a), envs.snapshot(b)
                if sa != sb or not math.isclose(ra, rb, rel_tol=1e-9, abs_tol=1e-12) or bool(da) != bool(db):
                    what = [w for w, x, y in (('state', sa[0], sb[0]), ('observation', sa[1], sb[1]), ('reward', ra, rb), ('done', da, db)) if x != y]
                    return f'seed {sd}, actions {[x.name for x in seq[:i + 1]]}: {what} differ'
    return None


def judge_config(path, depth, seeds):
    data = configs.load(path)
    before = copy.deepcopy(data)
    try:
        built = factory_env_from_data(data)
    except Exception as e:  # noqa: BLE001
        return f'factory_env_from_data raised {type(e).__name__}: {e}'
    if data != before:
        return 'building modified the input data tree'
    # the per-component factories must not modify the specs handed to them either
    from gym_gridverse.envs.yaml import factory as FY

    for key, fac in (('reset_function', FY.factory_reset_function), ('observation_function', FY.factory_observation_function),
                     ('terminating_function', FY.factory_terminating_function)):
        spec = copy.deepcopy(before[key])
        fac(spec)
        if spec != before[key]:
            return f'factory_{key} modified the specification handed to it'
    for key, fac in (('transition_functions', FY.factory_transition_function), ('reward_functions', FY.factory_reward_function)):
        for sp in before[key]:
            spec = copy.deepcopy(sp)
            fac(spec)
            if spec != sp:
                return f'factory for {key} modified the specification handed to it'
    try:
        built2 = factory_env_from_yaml(path)
    except Exception as e:  # noqa: BLE001
        return f'factory_env_from_yaml raised {type(e).__name__}: {e}'
    try:
        hand = ASM.assemble(copy.deepcopy(before))
    except ASM.AssembleError as e:
        return f'INTERNAL: hand-assembler rejects a shipped configuration: {e}'
    m = lockstep(built, hand, seeds, depth, directed=True)
    if m:
        return f'built environment differs from the hand-assembled one: {m}'
    m = lockstep(built2, hand, seeds[:1], depth)
    if m:
        return f'environment built from the YAML path differs from the hand-assembled one: {m}'
    # non-square variant of the same configuration (transposition slips are invisible on square shapes/layouts)
    var = nonsquare_variant(before)
    if var is not None:
        try:
            hv = ASM.assemble(copy.deepcopy(var))
        except ASM.AssembleError:
            hv = None
        try:
            bv = factory_env_from_data(copy.deepcopy(var))
        except REJECT:
            bv = None
        except Exception as e:  # noqa: BLE001
            return f'non-square variant: building raised {type(e).__name__}: {e}'
        if (hv is None) != (bv is None):
            return f'non-square variant {var["reset_function"]}: built={bv is not None}, hand-assembled={hv is not None}'
        if hv is not None:
            m = lockstep(bv, hv, seeds[:1], 2)
            if m:
                return f'non-square variant {var["reset_function"]} differs from the hand-assembled one: {m}'
    for label, var in extra_variants(before):
        var_before = copy.deepcopy(var)
        try:
            bv = factory_env_from_data(var)
        except Exception as e:  # noqa: BLE001
            return f'variant ({label}): building raised {type(e).__name__}: {e}'
        if var != var_before:
            return f'variant ({label}): building modified the input data tree'
        try:
            bv2 = factory_env_from_data(var)
        except Exception as e:  # noqa: BLE001
            return f'variant ({label}): building a second time from the same data raised {type(e).__name__}: {e}'
        try:
            hv = ASM.assemble(copy.deepcopy(var_before))
        except ASM.AssembleError as e:
            return f'INTERNAL: hand-assembler rejects variant ({label}): {e}'
        m = lockstep(bv, hv, seeds[:1], 2) or lockstep(bv2, hv, seeds[:1], 1)
        if m:
            return f'variant ({label}) differs from the hand-assembled one: {m}'
    again = factory_env_from_data(copy.deepcopy(before))
    m = lockstep(built, again, seeds[:1], min(depth, 2))
    if m:
        return f'building twice gives different environments: {m}'
    return None


def extra_variants(data):
    """further valid variants of a shipped configuration: (1) the action list in a non-enum order, (2) the observation
    function expressed through from_visibility with a nested visibility function specification"""
    out = []
    v = copy.deepcopy(data)
    acts = v.get('action_space') or [a.name for a in Action]
    v['action_space'] = list(reversed(acts))
    out.append(('reversed action_space', v))
    if not data.get('action_space') or len(data['action_space']) >= 6:
        for label, acts in (('forward + turns only', ['MOVE_FORWARD', 'TURN_LEFT', 'TURN_RIGHT']),
                            ('four moves + one turn', ['MOVE_FORWARD', 'MOVE_BACKWARD', 'MOVE_LEFT', 'MOVE_RIGHT', 'TURN_LEFT']),
                            ('turns only', ['TURN_RIGHT', 'TURN_LEFT'])):
            v = copy.deepcopy(data)
            v['action_space'] = acts
            out.append((f'partial action_space ({label})', v))
    # observation_space section differing from the state_space section (every shipped file repeats the same lists)
    v = copy.deepcopy(data)
    extra_c = next(c for c in ('BLUE', 'GREEN', 'RED', 'YELLOW') if c not in v['observation_space']['colors'] or True)
    v['observation_space'] = {'objects': list(v['observation_space']['objects']) + [o for o in ('Beacon', 'Telepod') if o not in v['observation_space']['objects']][:1],
                              'colors': sorted(set(v['observation_space']['colors']) | {extra_c})}
    out.append(('observation_space differing from state_space', v))
    v = copy.deepcopy(data)
    of = v['observation_function']
    if of.get('name') in ('partially_occluded', 'raytracing', 'fully_transparent'):
        v['observation_function'] = {'name': 'from_visibility', 'area': of['area'],
                                     'visibility_function': {'name': of['name'] if of['name'] != 'raytracing' else 'raytracing',
                                                             **({'absolute_counts': False, 'threshold': 0.5} if of['name'] == 'raytracing' else {})}}
        out.append(('from_visibility with a nested visibility function', v))
    return out


def nonsquare_variant(data):
    rf = data.get('reset_function', {})
    if not isinstance(rf.get('shape'), list):
        return None
    var = copy.deepcopy(data)
    h, w = rf['shape']
    name = rf['name']
    if name in ('rooms', 'memory_rooms'):
        var['reset_function']['shape'] = [h, h + 4]
        var['reset_function']['layout'] = [2, 3]
    elif name in ('crossing', 'memory'):
        var['reset_function']['shape'] = [h, w + 2]
    else:
        var['reset_function']['shape'] = [h, w + 1]
    return var


# ---------------------------------------------------------------- (a) files and ids
def snake(camel):
    return re.sub(r'(?<!^)(?=[A-Z])', '_', camel).lower()


def judge_files():
    msgs = []
    src = {os.path.basename(f): f for f in configs.config_files()}
    pkg = {os.path.basename(f): f for f in configs.packaged_files()}
    if set(src) != set(pkg):
        msgs.append(('files', f'yaml/ and registered_envs/ hold different files: {sorted(set(src) ^ set(pkg))}'))
    for fn in sorted(set(src) & set(pkg)):
        if open(src[fn], 'rb').read() != open(pkg[fn], 'rb').read():
            msgs.append(('files', f'packaged copy of {fn} differs from yaml/{fn}'))
    table = GG.STRING_TO_YAML_FILE
    if sorted(table.values()) != sorted(pkg):
        msgs.append(('ids', f'id table and packaged files are not in bijection: {sorted(set(table.values()) ^ set(pkg))}'))
    if len(set(table.values())) != len(table):
        msgs.append(('ids', 'two ids point at the same file'))
    for ident, fn in table.items():
        mobj = re.fullmatch(r'GV-([A-Za-z]+)-(\d+)x(\d+)-v0', ident)
        if not mobj:
            msgs.append(('ids', f'unexpected id format {ident}'))
            continue
        want = f'gv_{snake(mobj.group(1))}.{mobj.group(2)}x{mobj.group(3)}.yaml'
        if fn != want:
            msgs.append(('ids', f'id {ident} points at {fn}, its name and size say {want}'))
        try:
            spec = gym.spec(ident)
            p = spec.kwargs['factory'].args[0]
        except Exception as e:  # noqa: BLE001
            msgs.append(('ids', f'id {ident} is not registered properly: {type(e).__name__}: {e}'))
            continue
        if os.path.abspath(p) != os.path.abspath(pkg.get(fn, '')):
            msgs.append(('ids', f'registered spec of {ident} resolves to {p}, expected the packaged {fn}'))
            continue
        env = GG.outer_env_factory(p).inner_env
        if env.state_space.grid_shape.as_tuple != (int(mobj.group(2)), int(mobj.group(3))):
            msgs.append(('ids', f'id {ident} builds a {env.state_space.grid_shape.as_tuple} grid'))
    if sorted(GG.env_ids) != sorted(table):
        msgs.append(('ids', 'env_ids differs from the id table'))
    return msgs, len(table) + len(src)


# ---------------------------------------------------------------- (f) corruption
def nodes(tree, path=()):
    yield path, tree
    if isinstance(tree, dict):
        for k, v in tree.items():
            yield from nodes(v, path + (k,))
    elif isinstance(tree, list):
        for i, v in enumerate(tree):
            yield from nodes(v, path + (i,))


def get(tree, path):
    for k in path:
        tree = tree[k]
    return tree


def with_value(tree, path, value):
    t = copy.deepcopy(tree)
    if not path:
        return value
    parent = get(t, path[:-1])
    parent[path[-1]] = value
    return t


def without_key(tree, path):
    t = copy.deepcopy(tree)
    parent = get(t, path[:-1])
    del parent[path[-1]]
    return t


def mutations(tree):
    """(label, path, mutated tree)"""
    for path, node in nodes(tree):
        key = path[-1] if path else None
        if isinstance(node, dict):
            for k in node:
                yield f'delete {k}', path + (k,), without_key(tree, path + (k,))
        if key == 'name' and isinstance(node, str):
            yield 'unknown component', path, with_value(tree, path, 'no_such_component')
        if isinstance(node, dict) and isinstance(node.get('name'), str) and path and path[0] in (
                'reset_function', 'transition_functions', 'reward_functions', 'observation_function', 'terminating_function'):
            # entries named like the arguments every component of that kind receives from the environment at call time
            # (state, action, next_state, rng, ...): not parameters of the component, hence ignored like any other junk
            for k in ('state', 'action', 'next_state', 'rng', 'grid', 'position', 'junk_parameter'):
                if k not in node:
                    yield f'unaccepted {k} added', path + (k,), with_value(tree, path, dict(node, **{k: 7}))
        if path == ('reset_function',) and isinstance(node, dict):
            # well-formed values for reserved keys the component does not take: validated, then ignored - the environment
            # is the one built without them
            for k, v in (('shape', [3, 9]), ('layout', [2, 3]), ('colors', ['RED'])):
                if isinstance(node, dict) and k not in node:
                    yield f'unaccepted {k} added', path + (k,), with_value(tree, path, dict(node, **{k: v}))
        if key == 'shape':
            n = node[0]
            for label, v in (('shape [n]', [n]), ('shape [n,n,n]', [n, n, n]), ('shape [0,n]', [0, n]), ('shape [-1,n]', [-1, n]),
                             ('shape [n+0.5,n]', [n + 0.5, n]), ('shape "nxn"', f'{n}x{n}'), ('shape scalar', n)):
                yield label, path, with_value(tree, path, v)
        if key == 'colors' and isinstance(node, list):
            for label, v in (('colour unknown', node[:-1] + ['PURPLE']), ('colour lower-case', node[:-1] + [node[-1].lower()]),
                             ('colour duplicate', node + [node[0]]), ('colour empty', [])):
                yield label, path, with_value(tree, path, v)
            if 'NONE' not in node:
                yield 'colour NONE added', path, with_value(tree, path, node + ['NONE'])
                yield 'colour NONE first', path, with_value(tree, path, ['NONE'] + node)
        if key == 'action_space' and isinstance(node, list):
            for label, v in (('action unknown', node[:-1] + ['JUMP']), ('action duplicate', node + [node[0]]), ('action empty', [])):
                yield label, path, with_value(tree, path, v)
        if key == 'objects' and isinstance(node, list):
            yield 'object unknown', path, with_value(tree, path, node[:-1] + ['Lava'])
            yield 'objects empty', path, with_value(tree, path, [])
        if key == 'object_type' and isinstance(node, str):
            yield 'object_type unknown', path, with_value(tree, path, 'Lava')
        if path and path[0] not in ('state_space', 'observation_space', 'action_space') and key not in ('shape', 'layout', 'area') \
                and isinstance(node, (int, float)) and not isinstance(key, int):
            zero = False if isinstance(node, bool) else (0.0 if isinstance(node, float) else 0)
            if node != zero or isinstance(node, bool) != isinstance(zero, bool):
                yield f'zero value {key}', path, with_value(tree, path, zero)
            if isinstance(node, bool):
                yield f'flip value {key}', path, with_value(tree, path, not node)
        if key == 'distance_function':
            yield 'distance unknown', path, with_value(tree, path, 'chebyshev')


def judge_mutation(mutated, seeds, debug=True):
    """returns (class, message); debug=False evaluates the library with its debug flag off (rejection of a malformed
    configuration must not depend on it)"""
    if not debug:
        from gym_gridverse.debugging import reset_gv_debug

        reset_gv_debug(False)
        try:
            cls, m = judge_mutation(mutated, seeds, debug=True)
        finally:
            reset_gv_debug(True)
        return cls, (m + ' [debug flag off]' if m else None)
    try:
        hand = ASM.assemble(copy.deepcopy(mutated))
        expect = 'build'
    except ASM.AssembleError:
        hand, expect = None, 'reject'
    try:
        built = factory_env_from_data(copy.deepcopy(mutated))
        got = 'build'
    except REJECT:
        built, got = None, 'reject'
    except Exception as e:  # noqa: BLE001
        return expect, f'building raised {type(e).__name__}: {e} (only SchemaError / ValueError may reject a configuration)'
    if expect == 'reject' and got == 'build':
        return expect, 'a corrupted configuration was accepted and built some environment'
    if expect == 'build' and got == 'reject':
        return expect, 'a configuration that only lost an optional/unaccepted parameter was rejected'
    if expect == 'build':
        try:
            m = lockstep(built, hand, seeds, 2, limit=40)
        except Exception as e:  # noqa: BLE001 -- the hand-assembled twin runs the same real components: a crash is the built one's
            m = f'running it raised {type(e).__name__}: {e}'
        if m:
            return expect, f'builds an environment different from the hand-assembled one: {m}'
    return expect, None


def _mut_work(job):
    name, path, i, parts, seeds = job[:5]
    only = job[5] if len(job) > 5 else None
    tree = configs.load(path)
    n = rej = 0
    fails = []
    for j, (label, p, mutated) in enumerate(mutations(tree)):
        if j % parts != i or (only and not label.startswith(only)):
            continue
        n += 1
        cls, m = judge_mutation(mutated, seeds)
        if not m and cls == 'reject':
            cls, m = judge_mutation(mutated, seeds, debug=False)
        rej += 1 if cls == 'reject' else 0
        if m and len(fails) < 3:
            fails.append({'kind': 'mutation', 'config': name, 'index': j, 'label': label, 'path': list(p), 'seeds': list(seeds),
                          'message': f'{name}: {label} at {"/".join(map(str, p))}: {m}', 'sig': {'operator': label.split()[0], 'expected': cls}})
    return n, rej, fails


# ---------------------------------------------------------------- (e) registries
VALUES = {
    'shape': Shape(6, 7), 'layout': (2, 2), 'num_obstacles': 2, 'random_agent': True, 'random_exit': True, 'num_rivers': 1,
    'colors': {Color.RED, Color.GREEN, Color.BLUE}, 'num_beacons': 1, 'num_exits': 2, 'area': Area((-2, 0), (-1, 1)),
    'distance_function': Position.euclidean_distance, 'reward_on': 2.5, 'reward_off': -0.5, 'reward': 1.5, 'reward_closer': 0.75,
    'reward_further': -0.25, 'reward_per_unit_distance': -0.5, 'reward_open': 2.0, 'reward_close': -3.0, 'reward_pick': 4.0,
    'reward_drop': -4.0, 'reward_good': 6.0, 'reward_bad': -6.0, 'absolute_counts': False, 'threshold': 0.5,
}


def values_for(registry_name, fname, pname):
    if pname == 'object_type':
        return Wall if registry_name == 'reset' else Exit
    if pname == 'shape' and fname in ('crossing', 'memory'):
        return Shape(7, 7)
    if pname == 'transition_functions':
        return [TRF.transition_function_registry['turn_agent'], TRF.transition_function_registry['move_agent']]
    if pname == 'reward_functions':
        return [RWF.reward_function_registry['living_reward'], RWF.reward_function_registry['bump_into_wall']]
    if pname == 'terminating_functions':
        return [TMF.terminating_function_registry['reach_exit'], TMF.terminating_function_registry['bump_into_wall']]
    if pname == 'reduction':
        return max if registry_name == 'reward' else any
    if pname == 'visibility_function':
        return VF.visibility_function_registry['raytracing']
    return VALUES[pname]


REGISTRIES = {
    'reset': (RSF.reset_function_registry, RSF.factory),
    'transition': (TRF.transition_function_registry, TRF.factory),
    'reward': (RWF.reward_function_registry, RWF.factory),
    'observation': (OF.observation_function_registry, OF.factory),
    'visibility': (VF.visibility_function_registry, VF.factory),
    'terminating': (TMF.terminating_function_registry, TMF.factory),
}


def probe_inputs(kind):
    E, W, K, F_ = U.exit_(0), U.WALL, U.key(U.C1), U.FLOOR
    g = ((W, W, W, W), (W, F_, K, W), (W, U.door(1, U.C1), E, W), (W, W, W, W))
    states = [(g, 1, 1, h, held) for h in 'FRBL' for held in (NONE, K)] + [(g, 2, 2, 'L', NONE), (g, 1, 2, 'B', NONE)]
    if kind in ('transition',):
        return [(s, a) for s in states for a in ('MOVE_FORWARD', 'TURN_LEFT', 'ACTUATE', 'PICK_N_DROP')]
    if kind in ('reward', 'terminating'):
        return [(s, a, s2) for s in states[:6] for a in ('MOVE_FORWARD', 'ACTUATE') for s2 in states[4:]]
    if kind == 'observation':
        return states
    if kind == 'visibility':
        return [(g, (3, 1)), (g, (3, 2))]
    return [[], [1], [0, 2, 1], [2, 0, 0, 1, 3, 1, 2, 0, 1, 1, 0, 2]]


def call_component(kind, fn, inp):
    try:
        if kind == 'reset':
            return ('ok', sdesc(fn(rng=ChoiceRng(inp))))
        if kind == 'transition':
            st = mkstate(inp[0])
            fn(st, dyn.ACT[inp[1]], rng=ChoiceRng([]))
            return ('ok', sdesc(st))
        if kind in ('reward', 'terminating'):
            v = fn(mkstate(inp[0]), dyn.ACT[inp[1]], mkstate(inp[2]), rng=ChoiceRng([]))
            return ('ok', float(v) if kind == 'reward' else bool(v))
        if kind == 'observation':
            return ('ok', sdesc(fn(mkstate(inp), rng=ChoiceRng([]))))
        if kind == 'visibility':
            return ('ok', np.asarray(fn(mkgrid(inp[0]), Position(*inp[1]), rng=ChoiceRng([]))).tolist())
    except Exception as e:  # noqa: BLE001
        return ('exc', type(e).__name__)
    raise ValueError(kind)


def judge_registry(kind, fname):
    registry, factory = REGISTRIES[kind]
    fn = registry[fname]
    sig = inspect.signature(fn)
    params = [p for p in sig.parameters.values() if p.name not in ASM.PROTOCOL]
    kw = {p.name: values_for(kind, fname, p.name) for p in params}
    required = [p.name for p in params if p.default is inspect.Parameter.empty]
    n = 0
    try:
        f_full = factory(fname, **kw)
        f_bogus = factory(fname, **kw, bogus_parameter=1, another=[2])
    except Exception as e:  # noqa: BLE001
        return 1, f'factory({fname!r}, accepted parameters [+ unaccepted ones]) raised {type(e).__name__}: {e}'
    f_req = factory(fname, **{k: kw[k] for k in required})
    for inp in probe_inputs(kind):
        n += 1
        want = call_component(kind, lambda *a, **k: fn(*a, **kw, **k), inp)
        if call_component(kind, f_full, inp) != want:
            return n, f'factory({fname!r}, **kw) behaves differently from {fname}(**kw)'
        if call_component(kind, f_bogus, inp) != want:
            return n, f'factory({fname!r}, **kw, bogus=..) is affected by parameters the function does not accept'
        want_req = call_component(kind, lambda *a, **k: fn(*a, **{x: kw[x] for x in required}, **k), inp)
        if call_component(kind, f_req, inp) != want_req:
            return n, f'factory({fname!r}) with only required parameters differs from the function with its defaults'
    # falsy parameter values are values too (0, 0.0, False must reach the component, not be replaced by defaults)
    falsy = dict(kw)
    changed = False
    for p in params:
        v = kw[p.name]
        if isinstance(v, bool):
            falsy[p.name], changed = False, True
        elif isinstance(v, float):
            falsy[p.name], changed = 0.0, True
        elif isinstance(v, int) and p.name in ('num_obstacles', 'threshold'):
            falsy[p.name], changed = 0, True
    if changed:
        try:
            f_falsy = factory(fname, **falsy)
        except Exception as e:  # noqa: BLE001
            return n, f'factory({fname!r}) with zero/False parameter values raised {type(e).__name__}: {e}'
        for inp in probe_inputs(kind):
            n += 1
            want = call_component(kind, lambda *a, **k: fn(*a, **falsy, **k), inp)
            if call_component(kind, f_falsy, inp) != want:
                shown = {k: v for k, v in falsy.items() if isinstance(v, (bool, int, float))}
                return n, f'factory({fname!r}, **kw) with zero/False values {shown} behaves differently from {fname}(**kw)'
    from gym_gridverse.debugging import reset_gv_debug

    for r, dbg in [(r, d) for r in required for d in (True, False)]:
        n += 1
        reset_gv_debug(dbg)
        try:
            factory(fname, **{k: v for k, v in kw.items() if k != r})
        except ValueError:
            reset_gv_debug(True)
        except Exception as e:  # noqa: BLE001
            reset_gv_debug(True)
            return n, f'factory({fname!r}) without required {r!r} raised {type(e).__name__}, expected ValueError'
        else:
            reset_gv_debug(True)
            return n, f'factory({fname!r}) accepted a call without the required parameter {r!r} (debug flag {dbg})'
    return n, None


def judge_file_reload():
    """a configuration FILE is read when it is loaded: the same path loaded again after its contents changed builds what the
    file says now (or is rejected if it is now malformed); unchanged contents build the same environment again"""
    import shutil
    import tempfile
    from gym_gridverse.envs.yaml.factory import factory_env_from_yaml

    files = dict((os.path.basename(f), f) for f in configs.config_files())
    order = ['gv_keydoor.5x5.yaml', 'gv_empty.4x4.yaml', 'gv_keydoor.5x5.yaml', 'gv_memory.5x5.yaml', 'gv_empty.8x8.yaml']
    order = [o for o in order if o in files] or sorted(files)[:4]
    tmp = tempfile.mkdtemp(prefix='gv-c17-', dir=os.environ.get('TMPDIR') or '/var/tmp')
    n = 0
    try:
        path = os.path.join(tmp, 'env.yaml')
        for name in order:
            shutil.copyfile(files[name], path)
            n += 1
            try:
                built = factory_env_from_yaml(path)
            except Exception as e:  # noqa: BLE001
                return n, f'loading a copy of {name} from {path} raised {type(e).__name__}: {e}'
            want = configs.build(files[name])
            if space_sig(built) != space_sig(want):
                return n, (f'the file at one path was rewritten with the contents of {name} and loaded again: the environment built has '
                           f'spaces {space_sig(built)[:1]}, the file describes {space_sig(want)[:1]} (contents of an earlier load reused)')
        with open(path, 'w') as f:
            f.write(open(files[order[0]]).read().replace('name: keydoor', 'name: no_such_reset_function'))
        n += 1
        try:
            factory_env_from_yaml(path)
        except REJECT:
            pass
        except Exception as e:  # noqa: BLE001
            return n, f'a file rewritten with an unknown reset function raised {type(e).__name__}, expected a rejection'
        else:
            return n, 'a file rewritten with an unknown reset function (after a successful earlier load of the same path) was accepted'
    finally:
        shutil.rmtree(tmp, ignore_errors=True)
    return n, None


def replay(case):
    k = case['kind']
    if k == 'file_reload':
        return judge_file_reload()[1]
    if k == 'config':
        return judge_config(dict(configs.all_configs(include_examples=True))[case['config']], case['depth'], case['seeds'])
    if k == 'files':
        msgs, _ = judge_files()
        return msgs[0][1] if msgs else None
    if k == 'mutation':
        tree = configs.load(dict(configs.all_configs(include_examples=True))[case['config']])
        for j, (label, p, mutated) in enumerate(mutations(tree)):
            if j == case['index']:
                return judge_mutation(mutated, case['seeds'])[1] or judge_mutation(mutated, case['seeds'], debug=False)[1]
        return None
    if k == 'registry':
        return judge_registry(case['registry'], case['name'])[1]
    raise ValueError(k)


def run(rep, tier, seed):
    base = seed * 211 + 17
    seeds = [base, base + 1, base + 2]
    fails = []
    msgs, nfiles = judge_files()
    for cls, m in msgs:
        fails.append({'kind': 'files', 'message': m, 'sig': {'part': cls}})
    cfgs = configs.all_configs(include_examples=True)

    def cfg_work(item):
        name, path = item
        big = max(int(x) for x in re.findall(r'(\d+)x', name)) >= 9 if re.findall(r'(\d+)x', name) else False
        depth = (2 if big else 3) if tier == 'quick' else (3 if big else 4)
        sds = seeds[:2] if tier == 'quick' else seeds
        m = judge_config(path, depth, sds)
        acts = 6 if 'keydoor' not in name else 8
        return name, depth, sds, m, (acts ** depth) * (len(sds) + 2)

    cn = 0
    for name, depth, sds, m, cnt in pmap(cfg_work, cfgs):
        cn += cnt
        if m:
            if m.startswith('INTERNAL'):
                raise SystemExit(m)
            fails.append({'kind': 'config', 'config': name, 'depth': depth, 'seeds': sds, 'message': f'{name}: {m}', 'sig': {'part': 'lockstep', 'config': name}})
    rep.part('lockstep', configs=len(cfgs), sequences=cn)
    fk, fm = judge_file_reload()
    if fm:
        fails.append({'kind': 'file_reload', 'message': fm, 'sig': {'part': 'file_reload'}})
    rep.part('file_reload', loads=fk)
    mjobs = []
    for name, path in cfgs:
        if name == 'coin_env':
            continue
        parts = 8
        for i in range(parts):
            mjobs.append((name, path, i, parts, seeds[:1]))
    coin = [(name, path, 0, 1, seeds[:1], 'unaccepted') for name, path in cfgs if name == 'coin_env']
    if tier == 'quick':
        keep = {'keydoor.5x5', 'dynamic_obstacles.5x5', 'memory_four_rooms.7x7', 'crossing.5x5', 'teleport.5x5', 'empty.4x4', 'four_rooms.7x7', 'memory.5x5'}
        mjobs = [j for j in mjobs if j[0] in keep]
    mn = mrej = 0
    for n, rej, fl in dyn.pmap_w('mut', _mut_work, mjobs + coin):
        mn += n
        mrej += rej
        fails.extend(fl)
    rep.part('corruptions', mutations=mn, expected_rejections=mrej, expected_builds=mn - mrej,
             operators=['delete key', 'unknown component', '7 shape malformations', '4 colour malformations', '3 action malformations',
                        'unknown object / empty objects', 'unknown object_type', 'unknown distance function', 'zero/False value of every numeric parameter', 'flipped boolean'])
    rn = 0
    nreg = 0
    for kind, (registry, _) in REGISTRIES.items():
        for fname in sorted(registry):
            nreg += 1
            n, m = judge_registry(kind, fname)
            rn += n
            if m:
                fails.append({'kind': 'registry', 'registry': kind, 'name': fname, 'message': f'{kind} registry, {fname}: {m}',
                              'sig': {'part': 'registry', 'registry': kind}})
    for kind, (registry, factory) in REGISTRIES.items():
        try:
            factory('no_such_component')
        except ValueError:
            pass
        except Exception as e:  # noqa: BLE001
            fails.append({'kind': 'registry', 'registry': kind, 'name': 'no_such_component',
                          'message': f'{kind} factory raised {type(e).__name__} for an unknown name', 'sig': {'part': 'registry', 'registry': kind}})
    rep.part('registries', components=nreg, comparisons=rn)
    dyn.report_fails(rep, fails, replay)
    _tree = configs.load(dict(configs.all_configs())['keydoor.5x5'])
    _idx = next(j for j, (lb, p, _) in enumerate(mutations(_tree)) if lb == 'shape [0,n]')
    rep.sample({'kind': 'mutation', 'config': 'keydoor.5x5', 'index': _idx, 'label': 'shape [0,n]', 'path': ['reset_function', 'shape'], 'seeds': seeds[:1]})
    rep.sample({'kind': 'config', 'config': 'dynamic_obstacles.5x5', 'depth': 3, 'seeds': seeds[:2]})
    rep.exhaustive = False
    rep.assume('the YAML text is parsed by the strict subset loader in /verif/shims/yaml when PyYAML is absent (trusted base)')
    rep.assume('mutation operators: delete a mapping key; rename a component; malform shape / colour / action / object values; '
               'areas and bool-for-int are outside the operator alphabet')
    return rep.finish(
        states=len(cfgs) + mn + nreg,
        transitions=cn + mn + rn,
        validated=cn + mn + rn,
        evaluations=cn + mn + rn + nfiles,
        distinct_nontrivial=mn + len(cfgs) + nreg,
        rule='cases: one configuration (lockstep action tree against the hand-assembled environment), one single-point '
        'corruption of a configuration tree, one registered component name; all distinct',
    )


WORKERS = {'mut': _mut_work}

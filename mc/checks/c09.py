"""C09 -- objects are conserved: nothing is created, destroyed, duplicated or recoloured.

(a) E1 universe x poses x held items x actions x every built-in transition function / shipped chain / full
    chain x every random outcome: multiset of non-floor objects (+ held item) preserved except box opening;
    pick-and-drop compared with its reference; scenery keeps its cells.
(b) E3: inventory invariants in every reachable state of the shipped key-door and obstacle configurations.
"""
from collections import Counter

from .. import dyn, reach, configs
from .. import refmodel as R
from ..desc import FLOOR, NONE, tup

CHAINS = [(n,) for n in dyn.SINGLES] + dyn.SHIPPED_CHAINS + [dyn.CHAIN_FULL]
CHAINS_HI = [('pickndrop',), ('move_obstacles',), dyn.CHAIN_KEYDOOR, dyn.CHAIN_FULL]
SCENERY = ('Wall', 'Door', 'Exit', 'Telepod', 'Beacon', 'Box')


def nostatus(d):
    return (d[0], d[2], nostatus(d[3]) if d[3] is not None else None)


def inventory(s):
    c = Counter()
    for row in s[0]:
        for o in row:
            if o != FLOOR:
                c[nostatus(o)] += 1
    if s[4] != NONE:
        c[nostatus(s[4])] += 1
    return c


def expected_inventory(names, s, a):
    inv = inventory(s)
    box_cell = None
    if a == 'ACTUATE' and 'actuate_box' in names:
        p = R.front(s[1], s[2], s[3])
        if R.inside(s[0], p) and s[0][p[0]][p[1]][0] == 'Box':
            b = s[0][p[0]][p[1]]
            inv[nostatus(b)] -= 1
            if b[3] != FLOOR:
                inv[nostatus(b[3])] += 1
            box_cell = p
    return +inv, box_cell


def judge(names, s, a):
    fn = dyn.chain_fn(names)
    outs, capped = dyn.outcomes(fn, s, a, via_copy=len(names) > 1)  # chains through transition_with_copy, singles in place
    sig = {'action': a if a in ('PICK_N_DROP', 'ACTUATE') else 'other', 'front': dyn.front_class(s)}
    want_inv, box_cell = expected_inventory(names, s, a)
    exact = None
    if 'pickndrop' in names and not (set(names) & dyn.STOCHASTIC) and a == 'PICK_N_DROP':
        exact = R.ref_pickndrop(s, a)
    front = R.front(s[1], s[2], s[3])
    for choices, res in outs:
        if dyn.is_exc(res):
            if dyn.blamed(names, ('pickndrop', 'move_obstacles'), s, a):
                return len(outs), True, f'{"+".join(names)} on {a} raised {res[1]}: {res[2]}', sig
            continue  # other totality failures are decided by C01
        if +inventory(res) != want_inv:
            lost = want_inv - inventory(res)
            gained = inventory(res) - want_inv
            return len(outs), True, (
                f'{"+".join(names)} on {a}: objects not conserved, lost {dict(lost)} gained {dict(gained)} (script {choices})'
            ), sig
        if exact is not None and (res[0], res[4]) != (exact[0], exact[4]):
            return len(outs), True, f'{"+".join(names)} on {a}: pick-and-drop result differs from its reference', sig
        for y, row in enumerate(s[0]):
            for x, b in enumerate(row):
                if b[0] in SCENERY and (y, x) != box_cell:
                    c = res[0][y][x]
                    if (c[0], c[2]) != (b[0], b[2]):
                        return len(outs), True, (
                            f'{"+".join(names)} on {a}: scenery {b[0]} at {(y, x)} became {c[0]} (script {choices})'), sig
                    if b[0] == 'Box' and c != b:
                        return len(outs), True, f'{"+".join(names)} on {a}: box content at {(y, x)} changed', sig
        if a != 'PICK_N_DROP' or 'pickndrop' not in names:
            if res[4] != s[4]:
                return len(outs), True, f'{"+".join(names)} on {a}: held item changed from {s[4]} to {res[4]}', sig
    nontrivial = bool(R.obstacle_positions(s[0])) and 'move_obstacles' in names
    if a == 'PICK_N_DROP' and 'pickndrop' in names:
        nontrivial = True if not R.inside(s[0], front) else (
            s[0][front[0]][front[1]] != FLOOR or s[4] != NONE)
    if box_cell is not None:
        nontrivial = True
    return len(outs), nontrivial, None, sig


_worker = dyn.make_worker(judge, uses_held=lambda names: bool({'pickndrop', 'actuate_door'} & set(names)))


def count(rows, t):
    return sum(1 for r in rows for o in r if o[0] == t)


def make_hooks(env, name):
    if name.startswith('keydoor'):
        def on_state(k, st, g):
            rows, held = k[0], k[4]
            keys = count(rows, 'Key') + (1 if held[0] == 'Key' else 0)
            if keys != 1:
                return f'{keys} keys in the world (grid + hand), expected exactly 1'
            if count(rows, 'Door') != 1 or count(rows, 'Exit') != 1:
                return f"{count(rows, 'Door')} doors / {count(rows, 'Exit')} exits, expected 1 / 1"
            if held[0] not in ('Key', 'NoneGridObject'):
                return f'agent holds a {held[0]}'
            return None

        return on_state, None
    if name.startswith('dynamic_obstacles'):
        n = {'dynamic_obstacles.5x5': 1, 'dynamic_obstacles.7x7': 2}.get(name)

        def on_state(k, st, g):
            rows = k[0]
            if n is not None and count(rows, 'MovingObstacle') != n:
                return f"{count(rows, 'MovingObstacle')} obstacles, expected {n}"
            if count(rows, 'Exit') != 1:
                return f"{count(rows, 'Exit')} exits, expected 1"
            walls = sum(1 for y, r in enumerate(rows) for x, o in enumerate(r)
                        if o[0] == 'Wall' and 0 < y < len(rows) - 1 and 0 < x < len(r) - 1)
            if walls:
                return 'a wall appeared in the interior'
            return None

        return on_state, None

    def on_state(k, st, g):
        if count(k[0], 'Exit') < 1:
            return 'the exit disappeared'
        return None

    return on_state, None


def replay(case):
    if case['kind'] == 'job':
        return dyn.replay_job(case, _worker)
    if case['kind'] == 'step':
        return judge(tuple(case['names']), tup(case['s']), case['a'])[2]
    if case['kind'] == 'reach':
        return reach.replay_trace(case, make_hooks)
    raise ValueError(case['kind'])


def run(rep, tier, seed):
    plan = dyn.standard_plan(tier, CHAINS, CHAINS_HI, held_lo='small', held_hi='two', sigma_hi='obj5')
    rep.bounds['chains'] = ['+'.join(c) for c in CHAINS]
    # user-defined object types: a holdable that is not a Key, a subclass of Key
    for sh in ((1, 2), (1, 3), (2, 2)):
        plan.append(dict(shape=sh, sigma='custom4', k=2, held='custom', chains=[('pickndrop',), dyn.CHAIN_FULL], actions=R.ACTIONS))
    tot = dyn.run_universe(rep, plan, _worker, replay)
    if tier == 'quick':
        names, init_limit, max_states, gcap = ['keydoor.5x5', 'dynamic_obstacles.5x5', 'keydoor.7x7', 'teleport.5x5'], 200, 30000, 4
    else:
        names, init_limit, max_states, gcap = ['keydoor.5x5', 'keydoor.7x7', 'dynamic_obstacles.5x5', 'dynamic_obstacles.7x7', 'teleport.5x5',
                                               'teleport.7x7'], 200, 30000, 4
    rs, rt = dyn.run_reach(rep, names, init_limit, max_states, make_hooks, replay, 'inventory', group_cap=gcap, lineages=2)
    rep.assume('object alphabet: all 9 concrete grid-object types with 2 colours, nested boxes; held items include a '
               'non-holdable object (the state space admits any declared type in the hand)')
    return rep.finish(
        states=tot['states'] + rs,
        transitions=tot['exec'] + rt,
        validated=tot['exec'] + rt,
        evaluations=tot['cases'] + rt,
        distinct_nontrivial=tot['nontrivial'],
        rule='universe case = (grid, pose, held item, function/chain, action) enumerated once; non-trivial = PICK_N_DROP '
        'with something to pick/drop/swap or a front cell outside the grid, ACTUATE on a faced box, or a step with '
        'moving obstacles present',
    )

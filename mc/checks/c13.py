"""C13 -- reset functions always produce well-formed initial states.

For each of the 8 built-in reset functions, a parameter grid (shapes from 1x1 up, square and not, layouts,
counts incl. negative / too many, colour sets with and without NONE, flags); for every point ALL random
outcomes when there are few enough, otherwise every outcome with at most d non-default draws; plus real numpy
seeds replayed through the scripted generator.  Result must be a well-formed state or ValueError.
"""
from .. import dyn
from .. import resets as RS
from ..choice import ChoiceRng
from ..desc import sdesc, tup
from ..pool import pmap, replay_in_new_interpreter


def judge_point(name, params, limit, seeds):
    """returns (stats, failure dict|None)"""
    if max(params['shape']) > 13:
        limit = 1  # large-size sweep: the default outcome only (the subject is the wall geometry, not the sampling)
        seeds = ()
    outs, info = RS.outcomes(name, params, limit)
    st = {'resets': len(outs), 'states': 0, 'valueerror': 0, 'complete': 1 if info['complete'] else 0, 'replays': 0}
    shipped = RS.is_shipped(name, params)
    keys = set()

    def fail(msg, choices, cause):
        return st, {'kind': 'reset', 'name': name, 'params': params, 'script': choices, 'message':
                    f'{name}({_fmt(params)}) script {choices}: {msg}', 'sig': {'reset': name, 'cause': cause}}

    for choices, res in outs:
        if isinstance(res, tuple):
            if res[1] == 'HistoryDependence':
                return fail(res[2], choices, 'depends_on_earlier_calls')
            if res[1] != 'ValueError':
                return fail(f'raised {res[1]}: {res[2]} (only ValueError may reject parameters)', choices, 'wrong_exception')
            if shipped:
                return fail(f'a shipped parameter point is rejected: {res[2]}', choices, 'shipped_rejected')
            st['valueerror'] += 1
            continue
        k = sdesc(res)
        keys.add(k)
        m = RS.wellformed(name, params, k)
        if m:
            return fail(m, choices, 'malformed')
    st['states'] = len(keys)
    if keys and not isinstance(outs[0][1], tuple):
        # the same point without an explicit generator (what an environment that was never seeded passes): the function
        # falls back to the library-level generator, re-seeded here; same verdict as with a generator
        from gym_gridverse.rng import reset_gv_rng
        reset_gv_rng(len(keys))
        res = RS.call(name, params, None)
        st['resets'] += 1
        if isinstance(res, tuple):
            if res[1] != 'ValueError' or len(keys) == len([1 for _, r in outs if not isinstance(r, tuple)]):
                st2, f = fail(f'called without a generator (rng=None): raised {res[1]}: {res[2]}', [], 'unseeded')
                f['kind'] = 'unseeded'
                return st2, f
        else:
            m = RS.wellformed(name, params, sdesc(res))
            if m:
                st2, f = fail(f'called without a generator (rng=None): {m}', [], 'unseeded')
                f['kind'] = 'unseeded'
                return st2, f
    if params['shape'][0] * params['shape'][1] <= 16 or shipped:
        # parameter validation must not depend on the library's debug flag
        from gym_gridverse.debugging import reset_gv_debug

        reset_gv_debug(False)
        try:
            for choices, res in outs[:3]:
                res2 = RS.call(name, params, ChoiceRng(choices))
                a = res if isinstance(res, tuple) else sdesc(res)
                b = res2 if isinstance(res2, tuple) else sdesc(res2)
                if (isinstance(a, tuple) and a[:1] == ('EXC',)) != (isinstance(b, tuple) and b[:1] == ('EXC',)) or (not isinstance(res, tuple) and a != b):
                    st2, f = fail(f'with the debug flag off the same call gives a different result '
                                  f'({"state" if not isinstance(res2, tuple) else res2[1]} instead of {"state" if not isinstance(res, tuple) else res[1]})',
                                  choices, 'debug_dependent')
                    f['kind'] = 'reset_debug'
                    return st2, f
        finally:
            reset_gv_debug(True)
    if keys and (shipped or params['shape'][0] * params['shape'][1] <= 36):
        for choices, res in outs[:2]:
            m = judge_reset_twice(name, params, choices)
            if m:
                st2, f = fail(m, choices, 'depends_on_earlier_state')
                f['kind'] = 'reset_twice'
                return st2, f
    for sd in seeds:
        script, res = RS.real_seed(name, params, sd)
        st['replays'] += 1
        rep = RS.call(name, params, ChoiceRng(script))
        a = res if isinstance(res, tuple) else sdesc(res)
        b = rep if isinstance(rep, tuple) else sdesc(rep)
        if a != b:
            return st, {'kind': 'INTERNAL', 'message': f'ChoiceRng replay of numpy seed {sd} differs for {name} {params}'}
        if isinstance(res, tuple):
            if res[1] != 'ValueError':
                return fail(f'numpy seed {sd}: raised {res[1]}: {res[2]}', script, 'wrong_exception')
        else:
            m = RS.wellformed(name, params, a)
            if m:
                return fail(f'numpy seed {sd}: {m}', script, 'malformed')
            if info['complete'] and a not in keys:
                return st, {'kind': 'INTERNAL', 'message': f'numpy seed {sd} outcome outside the enumerated set for {name} {params}'}
    return st, None


def judge_reset_twice(name, params, script):
    """a reset must not depend on, nor share objects with, states returned earlier: reset, scramble the returned state in
    place (move the agent onto the exit / a wall, put a key in its hand, overwrite cells), reset again with the same draws"""
    from gym_gridverse.geometry import Position
    from gym_gridverse.grid_object import Key, Color, Wall

    first = RS.call(name, params, ChoiceRng(script))
    if isinstance(first, tuple):
        return None
    k1 = sdesc(first)
    ids1 = _ids(first)
    first.agent.grid_object = Key(Color.YELLOW)
    first.agent.position = Position(0, 0)
    first.agent.orientation = first.agent.orientation * first.agent.orientation.B
    for row in first.grid.objects:
        row[0], row[-1] = row[-1], Wall()
        for o in row:
            if 'color' in getattr(o, '__dict__', {}):
                o.color = Color.BLUE
    second = RS.call(name, params, ChoiceRng(script))
    if isinstance(second, tuple):
        return f'the second identical call raised {second[1]}'
    k2 = sdesc(second)
    if k2 != k1:
        m = RS.wellformed(name, params, k2)
        return ('a reset with the same random draws returns a different state after an earlier returned state was modified in '
                f'place{": " + m if m else ""}')
    shared = set(ids1) & set(_ids(second))
    if shared:
        return f'two resets return states sharing mutable objects: {sorted({ids1[i] for i in shared})}'
    return None


def _ids(st):
    ids = {id(st.grid): 'Grid', id(st.grid.objects): 'rows', id(st.agent): 'Agent', id(st.agent.transform): 'Transform'}
    for row in st.grid.objects:
        ids[id(row)] = 'row'
        for o in row:
            if getattr(o, '__dict__', None):
                ids[id(o)] = type(o).__name__
    return ids


def _fmt(params):
    return ', '.join(f'{k}={v}' for k, v in params.items())


def _work(job):
    pts, limit, seeds = job
    tot = {'points': 0, 'resets': 0, 'states': 0, 'valueerror': 0, 'complete': 0, 'replays': 0, 'accepting_points': 0}
    fails = []
    for pi, (name, params) in enumerate(pts):
        st, f = judge_point(name, params, limit, seeds)
        if f is not None:
            f['job'] = {'pts': [list(p) for p in pts[:pi + 1]], 'limit': limit, 'seeds': list(seeds)}
        tot['points'] += 1
        for k in ('resets', 'states', 'valueerror', 'complete', 'replays'):
            tot[k] += st[k]
        tot['accepting_points'] += 1 if st['states'] else 0
        if f and len(fails) < 4:
            f['simplicity'] = params['shape'][0] * params['shape'][1] if 'params' in f else 0
            fails.append(f)
    return tot, fails


def replay(case):
    if case['kind'] == 'job':
        # the points the exploration job ran before the failing one, in order (command line: a fresh process)
        j = case['job']
        pts = [(n, _params(p)) for n, p in j['pts']]
        for g in _work((pts, j['limit'], tuple(j['seeds'])))[1]:
            if dyn.same_case(case['inner'], g):
                return g['message']
        return None
    if case['kind'] == 'unseeded':
        res = RS.call(case['name'], _params(case['params']), None)
        if isinstance(res, tuple):
            return f'raised {res[1]}: {res[2]}'
        return RS.wellformed(case['name'], _params(case['params']), sdesc(res))
    if case['kind'] == 'reset_debug':
        from gym_gridverse.debugging import reset_gv_debug

        p = _params(case['params'])
        r1 = RS.call(case['name'], p, ChoiceRng(case['script']))
        reset_gv_debug(False)
        r2 = RS.call(case['name'], p, ChoiceRng(case['script']))
        reset_gv_debug(True)
        a = r1 if isinstance(r1, tuple) else sdesc(r1)
        b = r2 if isinstance(r2, tuple) else sdesc(r2)
        return None if (a == b or (isinstance(r1, tuple) and isinstance(r2, tuple))) else 'result depends on the debug flag'
    if case['kind'] == 'reset_twice':
        return judge_reset_twice(case['name'], _params(case['params']), case['script'])
    res = RS.call(case['name'], _params(case['params']), ChoiceRng(case['script']))
    if isinstance(res, tuple):
        if res[1] != 'ValueError':
            return f'raised {res[1]}: {res[2]}'
        if RS.is_shipped(case['name'], _params(case['params'])):
            return f'a shipped parameter point is rejected: {res[2]}'
        return None
    return RS.wellformed(case['name'], _params(case['params']), sdesc(res))


def _params(p):
    p = dict(p)
    for k in ('shape', 'layout', 'colors'):
        if k in p:
            p[k] = tuple(p[k])
    return p


def run(rep, tier, seed):
    limit = 250 if tier == 'quick' else 3000
    seeds = tuple(seed * 101 + i for i in range(2 if tier == 'quick' else 5))
    pts = RS.parameter_points(tier)
    rep.bounds = {'parameter_points': len(pts), 'max_shape': '9x9' if tier == 'quick' else '11x11 (+ shipped 10x10, 13x13)',
                  'outcome_limit_per_point': limit, 'real_seeds_per_point': len(seeds),
                  'functions': sorted({n for n, _ in pts})}
    jobs = [(pts[i::256], limit, seeds) for i in range(256)]
    tot = {}
    fails = []
    for t, fl in pmap(_work, jobs, fresh=True):
        for k, v in t.items():
            tot[k] = tot.get(k, 0) + v
        fails.extend(fl)
    for f in fails:
        if f['kind'] == 'INTERNAL':
            raise SystemExit('INTERNAL: ' + f['message'])
    fails.sort(key=lambda f: f.get('simplicity', 0))
    dyn.report_fails(rep, fails, replay, job_replayer=lambda case: replay_in_new_interpreter('C13', case))
    rep.part('resets', **tot)
    if tot['complete'] < tot['points']:
        rep.cap(f"{tot['points'] - tot['complete']} of {tot['points']} parameter points explored with a deviation bound "
                f'(<= 2 non-default draws) instead of all outcomes (limit {limit} outcomes per point)')
    rep.sample({'kind': 'reset', 'name': 'keydoor', 'params': {'shape': [5, 5]}, 'script': [0, 2, 1, 0, 2, 0, 3]})
    rep.sample({'kind': 'reset', 'name': 'memory_rooms', 'params': RS.SHIPPED[13][1], 'script': []})
    rep.assume('which unshipped parameter points are "valid" is not decided by the oracle: any point may either return a '
               'well-formed state or raise ValueError; shipped points must succeed')
    return rep.finish(
        states=tot['states'],
        transitions=tot['resets'],
        validated=tot['resets'] + tot['replays'],
        evaluations=tot['resets'],
        distinct_nontrivial=tot['accepting_points'],
        rule='case = one execution of a reset function at a parameter point under one resolution of its random draws; '
        'distinct_nontrivial counts parameter points that produced at least one state (the others are rejected with '
        'ValueError); states = distinct initial states checked for well-formedness',
    )

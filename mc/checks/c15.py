"""C15 -- numeric representations always lie inside their declared spaces.

Spaces: subsets of the 9 concrete object types (size <=3 and the shipped sets; thorough: all 511) x colour
subsets x grid shapes {2x2,2x3,3x2,3x3} / view shapes {1x1,2x3,3x3,3x5,7x7} x {default, no-overlap, compact} x
{state, observation}.  Members: every admitted object at every cell, every agent pose, every held item.
Oracle: same key set; Space.contains(array) per key; the gym-layer Dict space contains the dict.
Plus E3: every reachable state / observation of the shipped configurations through OuterEnv and the gym spaces.
"""
import itertools

import numpy as np

from gym_gridverse.gym import outer_space_to_gym_space

from .. import configs, dyn, reach
from .. import reps as P
from ..choice import ChoiceRng
from ..desc import NONE, mkobs, mkstate, sdesc, tup
from ..pool import pmap

GRID_SHAPES = [(2, 2), (2, 3), (3, 2), (3, 3)]
VIEW_SHAPES = [(1, 1), (2, 3), (3, 3), (3, 5), (7, 7)]


def check_rep(rep, gym_space, member_obj, what):
    """convert one member and test containment; returns message or None"""
    try:
        arrays = rep.convert(member_obj)
    except Exception as e:  # noqa: BLE001
        return f'{what}: convert raised {type(e).__name__}: {e}'
    space = rep.space
    if set(arrays) != set(space):
        return f'{what}: keys {sorted(arrays)} != space keys {sorted(space)}'
    for k, arr in arrays.items():
        if not isinstance(arr, np.ndarray):
            return f'{what}: entry {k!r} is {type(arr).__name__}, not an array'
        if not space[k].contains(arr):
            return (f'{what}: entry {k!r} (shape {arr.shape}, dtype {arr.dtype}, min {arr.min() if arr.size else None}, max '
                    f'{arr.max() if arr.size else None}) outside its declared space (shape {space[k].shape}, '
                    f'upper {np.asarray(space[k].upper_bound).max()})')
    if gym_space is not None:
        try:
            ok = gym_space.contains(arrays)
        except Exception as e:  # noqa: BLE001
            return f'{what}: gym space contains raised {type(e).__name__}: {e}'
        if not ok:
            return f'{what}: gym-layer space does not contain the representation'
    return None


_gym_cache = {}


def gym_space_of(rep, key):
    if key not in _gym_cache:
        if len(_gym_cache) > 64:
            _gym_cache.clear()
        _gym_cache[key] = outer_space_to_gym_space(rep.space)
    return _gym_cache[key]


def judge_space(kind, shape, types, colours, repname, with_gym=True):
    """all members of one space under one representation; returns (n_conversions, message, case)"""
    from gym_gridverse.debugging import reset_gv_debug

    reset_gv_debug(True)
    objs = P.objects_of(types, colours)
    n = 0
    if kind == 'state':
        sp = P.state_space(shape, types, colours)
        if 'Box' in types:
            try:
                P.make_state_representation(repname, sp)
            except ValueError:
                return 1, None, None
            except Exception as e:  # noqa: BLE001
                return 1, f'state representation of a space with Box raised {type(e).__name__}, expected ValueError', None
            return 1, 'state representation accepted a space containing Box (documented to raise ValueError)', None
        rep = P.make_state_representation(repname, sp)
        members, build = P.state_members(shape, objs), mkstate
    else:
        sp = P.obs_space(shape, types, colours)
        rep = P.make_observation_representation(repname, sp)
        members, build = P.obs_members(shape, objs), mkobs
    gsp = gym_space_of(rep, (kind, shape, types, colours, repname)) if with_gym else None
    for m in members:
        n += 1
        msg = check_rep(rep, gsp, build(m), f'{kind} {repname}')
        if msg:
            return n, msg, m
    return n, None, None


def _work(job):
    n = spaces = 0
    fails = []
    kept = []
    for kind, shape, types, colours in job:
        for repname in P.REPS:
            if len(kept) < 8 and not (kind == 'state' and 'Box' in types) and (len(kept) < 3 or {'Key', 'Door'} & set(types)):
                # keep a representation, the spaces it advertised when created, and two members: re-checked at the end,
                # after representations of OTHER spaces have been created and used in this process
                objs = P.objects_of(types, colours)
                if kind == 'state':
                    rep0 = P.make_state_representation(repname, P.state_space(shape, types, colours))
                    allm = list(P.state_members(shape, objs))
                    mem = [mkstate(m) for m in allm[:: max(1, len(allm) // 12)]]
                else:
                    rep0 = P.make_observation_representation(repname, P.obs_space(shape, types, colours))
                    allm = list(P.obs_members(shape, objs))
                    mem = [mkobs(m) for m in allm[:: max(1, len(allm) // 12)]]
                kept.append((kind, shape, types, colours, repname, rep0, dict(rep0.space), outer_space_to_gym_space(rep0.space), mem))
            k, msg, m = judge_space(kind, shape, types, colours, repname)
            n += k
            spaces += 1
            if msg and len(fails) < 3:
                fails.append({'kind': 'space', 'skind': kind, 'shape': shape, 'types': types, 'colours': colours, 'rep': repname,
                              'member': m, 'message': f'{kind} space {shape} types {list(types)} colours {list(colours)} [{repname}]: {msg}',
                              'sig': {'rep': repname, 'kind': kind}, 'simplicity': len(types) * 10 + len(colours)})
    if kept:
        # a class named like a library type is defined later in the process (a user's own `Key`, a reloaded module):
        # the encoding of the already existing types must not move
        from gym_gridverse.grid_object import GridObject

        def _define():
            class Key(GridObject):  # noqa: F811 -- same NAME as the library's Key, a different class
                state_index = 0
                color = kept[0][5].space and __import__('gym_gridverse.grid_object', fromlist=['Color']).Color.NONE
                blocks_movement = False
                blocks_vision = False
                holdable = True

                @classmethod
                def can_be_represented_in_state(cls):
                    return True

                @classmethod
                def num_states(cls):
                    return 1
            return Key

        _define()
    for kind, shape, types, colours, repname, rep0, space0, gym0, mem in kept:
        for mo in mem:
            n += 1
            try:
                arrays = rep0.convert(mo)
                bad = [k for k in arrays if not space0[k].contains(arrays[k])] or ([] if gym0.contains(arrays) else ['<gym space>'])
            except Exception as e:  # noqa: BLE001
                bad = [f'<convert raised {type(e).__name__}: {e}>']
            if bad and len(fails) < 3:
                fails.append({'kind': 'space_order', 'job': [list(map(list, (j[1], j[2], j[3]))) + [j[0]] for j in job][:0],
                              'message': f'{kind} space {shape} types {list(types)} colours {list(colours)} [{repname}]: after representations '
                              f'of other spaces were created in the same process, entries {bad} leave the space advertised at creation',
                              'skind': kind, 'shape': shape, 'types': types, 'colours': colours, 'rep': repname, 'jobspec': job,
                              'sig': {'rep': repname, 'kind': kind, 'part': 'advertised_then_others'}, 'simplicity': 0})
    return n, spaces, fails


def judge_agent_bounds(n):
    """the continuous agent entry of the state representations on long grids: every agent cell (the last row / column in
    particular) x heading, for n x 2, 2 x n and n x 3 grids; exact containment in the declared space and the gym Box"""
    cnt = 0
    for shape in ((n, 2), (2, n), (n, 3)):
        types, colours = ('Floor', 'Wall'), ()
        sp = P.state_space(shape, types, colours)
        for repname in P.REPS:
            rep = P.make_state_representation(repname, sp)
            gsp = outer_space_to_gym_space(rep.space)
            base = P.fill(shape, P.objects_of(types, colours)[0])
            H, W = shape
            cells = {(y, x) for y in range(H) for x in (0, W - 1)} | {(y, x) for y in (0, H - 1) for x in range(W)}
            for (y, x) in sorted(cells):
                for h in 'FRBL':
                    cnt += 1
                    m = check_rep(rep, gsp, mkstate((base, y, x, h, NONE)), f'state {repname}')
                    if m:
                        return cnt, f'{shape[0]}x{shape[1]} grid, agent at {(y, x)} facing {h}: {m}', {'shape': list(shape), 'rep': repname}
    return cnt, None, None


def judge_space_object_is_callers(kind, shape, types, colours, repname):
    """a space object handed out by a representation belongs to the caller: writing to its bound arrays (+= 1, to size an
    embedding table, say) changes neither later conversions nor the bounds a later request reports"""
    objs = P.objects_of(types, colours)
    if kind == 'state':
        rep = P.make_state_representation(repname, P.state_space(shape, types, colours))
        members = [mkstate(m) for m in list(P.state_members(shape, objs))[::5]]
    else:
        rep = P.make_observation_representation(repname, P.obs_space(shape, types, colours))
        members = [mkobs(m) for m in list(P.obs_members(shape, objs))[::5]]
    before = [{k: np.array(v, copy=True) for k, v in rep.convert(m).items()} for m in members]
    bounds = {k: (np.array(v.lower_bound, copy=True), np.array(v.upper_bound, copy=True)) for k, v in rep.space.items()}
    handed = rep.space
    for k in handed:
        for arr in (handed[k].upper_bound, handed[k].lower_bound):
            try:
                arr += 1
            except Exception:  # noqa: BLE001 -- read-only arrays are fine
                pass
    n = 0
    for m, b in zip(members, before):
        n += 1
        now = rep.convert(m)
        if set(now) != set(b) or any(not np.array_equal(now[k], b[k]) for k in b):
            return n, (f'{kind} [{repname}] types {list(types)} colours {list(colours)}: after the bound arrays of a space object '
                       f'returned earlier were incremented in place by their owner, the same member converts differently')
    again = rep.space
    for k, (lo, hi) in bounds.items():
        if again is not handed and (not np.array_equal(again[k].lower_bound, lo) or not np.array_equal(again[k].upper_bound, hi)):
            return n, f'{kind} [{repname}]: a later request for the space reports bounds moved by a write to an earlier returned space object'
    return n, None


def judge_gym_switching(name, seed):
    """at the gym layer, after every step and after every representation switch (all ordered pairs), the current
    observation / state lie in the currently advertised spaces"""
    import gym_gridverse.gym as GG
    from gym_gridverse.outer_env import OuterEnv

    inner = configs.build(dict(configs.all_configs())[name])
    inner.set_seed(seed)
    srep = P.make_state_representation('default', inner.state_space) if inner.state_space.can_be_represented else None
    orep = P.make_observation_representation('default', inner.observation_space)
    ge = GG.GymEnvironment(OuterEnv(inner, state_representation=srep, observation_representation=orep))
    # a bystander: a second environment that was handed the SAME representation objects and is never switched nor stepped;
    # what it advertises and emits must not move when the first environment is switched
    inner2 = configs.build(dict(configs.all_configs())[name])
    inner2.set_seed(seed)
    by = GG.GymEnvironment(OuterEnv(inner2, state_representation=srep, observation_representation=orep))
    by.reset()
    by_base = {k: np.array(v, copy=True) for k, v in by.observation.items()}
    n = 0
    ge.reset()
    order = ['compact', 'default', 'no-overlap', 'compact', 'no-overlap', 'default', 'compact']
    for i, repname in enumerate(order):
        for which in ('observation', 'state'):
            if which == 'state' and srep is None:
                continue
            n += 1
            cur_before = getattr(ge, which)  # read, then switch, then read again
            getattr(ge, f'set_{which}_representation')(repname)
            cur = getattr(ge, which)
            space = ge.observation_space if which == 'observation' else ge.state_space
            if not space.contains(cur):
                return n, f'{name}: after switching the {which} representation to {repname} the current {which} is outside the advertised space'
            try:
                by_cur = by.observation
                ok = by.observation_space.contains(by_cur) and set(by_cur) == set(by_base) and all(
                    np.array_equal(by_cur[k], by_base[k]) for k in by_base)
            except Exception as e:  # noqa: BLE001
                ok = False
            if not ok:
                return n, (f'{name}: switching the {which} representation of ONE gym environment to {repname} changed what another '
                           f'environment (built with the same representation objects, never switched) emits / advertises')
        out = ge.step(i % ge.action_space.n)
        if not ge.observation_space.contains(out[0]):
            return n, f'{name}: step output outside the advertised observation space under {repname}'
    return n, None


# ---------------------------------------------------------------- shipped configurations
def make_hooks(env, name):
    from gym_gridverse.representations.observation_representations import make_observation_representation
    from gym_gridverse.representations.state_representations import make_state_representation

    sreps = [(r, make_state_representation(r, env.state_space)) for r in P.REPS] if env.state_space.can_be_represented else []
    oreps = [(r, make_observation_representation(r, env.observation_space)) for r in P.REPS]
    sgym = [outer_space_to_gym_space(r.space) for _, r in sreps]
    ogym = [outer_space_to_gym_space(r.space) for _, r in oreps]

    def on_state(k, st, g):
        for (rn, rep), gs in zip(sreps, sgym):
            m = check_rep(rep, gs, st, f'state {rn}')
            if m:
                return m
        env._rng = ChoiceRng([])
        try:
            o = env.functional_observation(st)
        except Exception as e:  # noqa: BLE001
            return f'functional_observation of a reachable state raised {type(e).__name__}: {e}'
        for (rn, rep), gs in zip(oreps, ogym):
            m = check_rep(rep, gs, o, f'observation {rn}')
            if m:
                return m
        return None

    return on_state, None


def replay(case):
    if case['kind'] == 'space_order':
        job = [(j[0], tuple(j[1]), tuple(j[2]), tuple(j[3])) for j in case['jobspec']]
        for f in _work(job)[2]:
            if f['kind'] == 'space_order':
                return f['message']
        return None
    if case['kind'] == 'agent_bounds':
        return judge_agent_bounds(case['n'])[1]
    if case['kind'] == 'space_owner':
        return judge_space_object_is_callers(case['skind'], tuple(case['shape']), tuple(case['types']), tuple(case['colours']), case['rep'])[1]
    if case['kind'] == 'gym_switch':
        try:
            return judge_gym_switching(case['config'], case['seed'])[1]
        except Exception as e:  # noqa: BLE001
            return f'raised {type(e).__name__}: {e}'
    if case['kind'] == 'space':
        return judge_space(case['skind'], tuple(case['shape']), tuple(case['types']), tuple(case['colours']), case['rep'])[1]
    if case['kind'] == 'reach':
        return reach.replay_trace(case, make_hooks)
    raise ValueError(case['kind'])


def spaces(tier):
    names = P.TYPE_ORDER
    if tier == 'quick':
        subsets = [c for k in (1, 2, 3) for c in itertools.combinations(names, k)] + [tuple(s) for s in P.SHIPPED_TYPE_SETS] + [tuple(names)]
        colour_sets = [(), (1,), (4,), (1, 4), (1, 2, 3, 4)]
        gshapes, vshapes = GRID_SHAPES, [(1, 1), (2, 3), (3, 3), (3, 5)]
    else:
        subsets = [c for k in range(1, 10) for c in itertools.combinations(names, k)]
        colour_sets = [c for k in range(0, 5) for c in itertools.combinations((1, 2, 3, 4), k)]
        gshapes, vshapes = GRID_SHAPES, VIEW_SHAPES
    out = []
    for ts in subsets:
        for cs in colour_sets:
            if tier == 'quick' and len(ts) == 3 and cs in ((4,), (1, 4)):
                continue
            for sh in gshapes:
                if tier == 'quick' and len(ts) >= 3 and sh in ((2, 2), (3, 2)):
                    continue
                out.append(('state', sh, ts, cs))
            for sh in vshapes:
                if tier == 'quick' and len(ts) >= 3 and sh in ((3, 3), (3, 5)) and cs != (1, 2, 3, 4):
                    continue
                out.append(('observation', sh, ts, cs))
    if tier == 'quick':
        out += [('observation', (7, 7), tuple(s), (1, 2, 3, 4)) for s in P.SHIPPED_TYPE_SETS]
    # degenerate observation spaces: no cell type of their own (Hidden and the empty hand are admitted by every
    # observation space), or only the two special types listed explicitly
    for ts in ((), ('NoneGridObject',), ('Hidden',), ('Hidden', 'NoneGridObject')):
        for cs in ((), (1, 4)):
            for sh in ((1, 1), (2, 3)):
                out.append(('observation', sh, ts, cs))
    return out


def run(rep, tier, seed):
    sp = spaces(tier)
    sp.sort(key=lambda s: -len(s[2]) * s[1][0] * s[1][1])
    jobs = [sorted(sp[i::256], key=lambda x: len(x[2])) for i in range(256)]
    n = ns = 0
    fails = []
    for k, s, fl in dyn.pmap_w('work', _work, jobs):
        n += k
        ns += s
        fails.extend(fl)
    fails.sort(key=lambda f: f['simplicity'])
    dyn.report_fails(rep, fails, replay)
    an = 0
    for k, m, info in pmap(judge_agent_bounds, list(range(2, 41 if tier == 'quick' else 81))):
        an += k
        if m:
            rep.violation({'kind': 'agent_bounds', 'n': info['shape'][0] if info['shape'][0] > 3 else info['shape'][1], 'sig': {'part': 'agent_bounds', 'rep': info['rep']}}, m)
    rep.part('agent_entry_on_long_grids', conversions=an, sizes='2..40' if tier == 'quick' else '2..80')
    on = 0
    for kind, shape, types, colours in (('state', (2, 3), ('Wall', 'Floor', 'Exit', 'Door', 'Key'), (1, 4)), ('observation', (2, 3), ('Wall', 'Floor', 'Exit', 'Door', 'Key'), (1, 4)),
                                        ('observation', (3, 3), ('Floor', 'Telepod', 'Beacon'), (2,)), ('state', (2, 2), ('Floor', 'Key'), ())):
        for repname in P.REPS:
            k, m = judge_space_object_is_callers(kind, shape, types, colours, repname)
            on += k
            if m:
                rep.violation({'kind': 'space_owner', 'skind': kind, 'shape': list(shape), 'types': list(types), 'colours': list(colours), 'rep': repname,
                               'sig': {'part': 'space_owner', 'rep': repname}}, m)
    rep.part('returned_space_objects', conversions=on)
    gn = 0
    for name in (configs.SMALL + ['keydoor.7x7', 'memory_four_rooms.7x7'] if tier == 'quick' else [c for c, _ in configs.all_configs()]):
        try:
            k, m = judge_gym_switching(name, seed + 3)
        except Exception as e:  # noqa: BLE001 -- the harness only builds, resets, steps and switches: an exception is the library's
            k, m = 1, f'{name}: building / resetting / stepping / switching representations at the gym layer raised {type(e).__name__}: {e}'
        gn += k
        if m:
            rep.violation({'kind': 'gym_switch', 'config': name, 'seed': seed + 3, 'sig': {'part': 'gym_switching'}}, m)
    rep.part('gym_layer_switching', reads=gn)
    rep.part('spaces', spaces=len(sp), space_x_representation=ns, conversions=n)
    rep.bounds = {'type_subsets': 'sizes 1..3 + 5 shipped sets + all 9' if tier == 'quick' else 'all 511 non-empty subsets',
                  'colour_subsets': 5 if tier == 'quick' else 16, 'grid_shapes': GRID_SHAPES, 'view_shapes': VIEW_SHAPES,
                  'members': 'every admitted object (type x status x colour) at every cell, every agent cell x heading, every held item'}
    if tier == 'quick':
        names, init_limit, max_states, gcap = configs.SMALL + ['crossing.7x7', 'four_rooms.7x7', 'memory_four_rooms.7x7', 'keydoor.7x7'], 60, 3000, 3
    else:
        names, init_limit, max_states, gcap = configs.SMALL + ['crossing.7x7', 'four_rooms.7x7', 'memory_four_rooms.7x7', 'keydoor.7x7'], 100, 4000, 4
    rs, rt = dyn.run_reach(rep, names, init_limit, max_states, make_hooks, replay, 'representation_in_space', group_cap=gcap, lineages=2)
    rep.sample({'kind': 'space', 'skind': 'observation', 'shape': [3, 5], 'types': ['Floor', 'Door', 'Key'], 'colours': [1, 4], 'rep': 'compact'})
    rep.assume('grid shapes of at least 2x2 (the agent channel divides by height-1 / width-1), view shapes of odd width')
    return rep.finish(
        states=ns + rs,
        transitions=n + rs * 6,
        validated=n + rs * 6,
        evaluations=n + rs * 6,
        distinct_nontrivial=ns,
        rule='case = one member converted under one representation and tested against the inner and the gym-layer space; '
        'distinct_nontrivial counts distinct (space, representation) pairs; reachable states of shipped configurations '
        'are converted under all 3 state and 3 observation representations',
    )


WORKERS = {'work': _work}

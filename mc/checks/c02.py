"""C02 -- seeded environments are reproducible and isolated from every global RNG.

1. twin runs over the complete action tree to depth D (two environments, same data, same seed);
2. every interleaving (merge) of the operation lists of seeded env A, seeded env B (same seed), an unseeded
   env U and global-noise operations: each seeded env's history equals its solo history;
3. isolation tripwire: the library generator is replaced by a counting proxy; after every operation on a
   seeded environment the proxy's call count / bit state, numpy's global state and random's state are unchanged;
4. debug flag on / off give the same trajectories;
5. hash order, exhaustive in-process: set-typed parameters passed as a set subclass iterating in each permutation;
6. hash order across fresh interpreter processes (PYTHONHASHSEED values).
"""
import itertools
import json
import os
import random as pyrandom
import subprocess
import sys

import numpy as np

import gym_gridverse.rng as gvrng
from gym_gridverse.action import Action
from gym_gridverse.debugging import reset_gv_debug
from gym_gridverse.envs import reset_functions as RSF
from gym_gridverse.geometry import Shape
from gym_gridverse.grid_object import Color

from .. import boot, configs, dyn, envs
from ..desc import sdesc
from ..pool import pmap


class CountingProxy:
    def __init__(self, gen):
        self._gen = gen
        self.calls = 0

    def __getattr__(self, name):
        attr = getattr(self._gen, name)
        if callable(attr):
            def wrapped(*a, **k):
                self.calls += 1
                return attr(*a, **k)
            return wrapped
        return attr


def install_tripwire():
    proxy = CountingProxy(np.random.default_rng(12345))
    gvrng._gv_rng = proxy
    return proxy


def global_fp(proxy):
    st = np.random.get_state()
    return (proxy.calls, json.dumps(proxy._gen.bit_generator.state, sort_keys=True, default=str),
            st[0], st[1].tobytes(), st[2], pyrandom.getstate())


def what_changed(a, b):
    names = ['library generator call count', 'library generator bit state', 'numpy global algorithm', 'numpy global state',
             'numpy global position', 'random module state']
    return [n for n, x, y in zip(names, a, b) if x != y]


# ---------------------------------------------------------------- 1/3/4: twin runs over the action tree
def judge_twin(name, seed, seq, fresh_envs=True):
    """seq: list of action names.  returns message or None"""
    proxy = install_tripwire()
    if fresh_envs:
        e1, e2 = envs.fresh(name, seed), envs.fresh(name, seed)
        reset_gv_debug(False)
        e3 = envs.fresh(name, seed)
        reset_gv_debug(True)
    else:
        e1, e2, e3 = envs.slot(name, 1, seed), envs.slot(name, 2, seed), envs.slot(name, 3, seed, debug=False)
    ops = [('reset', None)] + [('step', a) for a in seq]
    for i, (op, a) in enumerate(ops):
        outs = []
        for j, e in enumerate((e1, e2, e3)):
            reset_gv_debug(j != 2)
            before = global_fp(proxy)
            if op == 'reset':
                e.reset()
                snap = envs.snapshot(e)
            else:
                r, d = e.step(Action[a])
                snap = envs.snapshot(e, r, d)
            after = global_fp(proxy)
            reset_gv_debug(True)
            if before != after:
                return f'{op} {a or ""} on a seeded environment perturbed: {what_changed(before, after)}'
            outs.append(snap)
        if outs[0] != outs[1]:
            which = [n for n, x, y in zip(('state', 'observation', 'reward', 'done'), outs[0], outs[1]) if x != y]
            return f'two environments with the same seed diverge at operation {i} ({op} {a or ""}): {which} differ'
        if outs[0] != outs[2]:
            which = [n for n, x, y in zip(('state', 'observation', 'reward', 'done'), outs[0], outs[2]) if x != y]
            return f'debug flag off changes the trajectory at operation {i} ({op} {a or ""}): {which} differ'
    # late seeding: reset, THEN seed, then the first random operation is an observation (no memo yet for the stateful read,
    # and the functional one): nothing may come from the library-level generator, and two environments treated alike agree
    late = []
    for j in (1, 2):
        e = envs.slot(name, ('late', j), seed + 31)
        e.reset()
        e.step(list(e.action_space.actions)[0])
        before = global_fp(proxy)
        e.set_seed(seed)
        o1 = sdesc(e.observation)
        o2 = sdesc(e.functional_observation(e.state))
        after = global_fp(proxy)
        if before != after:
            return f'an observation read right after set_seed() (before any reset/step) perturbed: {what_changed(before, after)}'
        late.append((o1, o2))
    if late[0] != late[1]:
        return 'two environments seeded alike after the same history observe differently right after set_seed()'
    # an environment that has been USED (odd / even number of earlier draws) and is then given the seed behaves like a
    # fresh one with that seed
    for prior in (0, 1, 2):
        used = envs.slot(name, ('used', prior), seed + 77)
        used.reset()
        acts0 = list(used.action_space.actions)
        for i in range(prior):
            used.step(acts0[i % len(acts0)])
        used.observation
        used.set_seed(seed)
        fresh = envs.fresh(name, seed) if fresh_envs else envs.slot(name, 1, seed)
        tu, tf = envs.run_actions(used, [Action[a] for a in seq]), envs.run_actions(fresh, [Action[a] for a in seq])
        if tu != tf:
            k = next(i for i, (x, y) in enumerate(zip(tu, tf)) if x != y)
            return (f'an environment used before ({prior} steps) and then given the seed diverges from a fresh environment with '
                    f'the same seed at operation {k}')
    # sparse reads: the observation is read only at the very end (eager observation generation in one of the variants
    # would shift the random stream of the dynamics)
    if fresh_envs:
        e1, e3 = envs.fresh(name, seed), None
        reset_gv_debug(False)
        e3 = envs.fresh(name, seed)
        reset_gv_debug(True)
    else:
        e1, e3 = envs.slot(name, 1, seed), envs.slot(name, 3, seed, debug=False)
    trail = []
    for j, e in enumerate((e1, e3)):
        reset_gv_debug(j == 0)
        e.reset()
        t = [sdesc(e.state)]
        for a in seq:
            r, d = e.step(Action[a])
            t.append((sdesc(e.state), float(r), bool(d)))
        t.append(sdesc(e.observation))
        reset_gv_debug(True)
        trail.append(t)
    if trail[0] != trail[1]:
        k = next(i for i, (x, y) in enumerate(zip(*trail)) if x != y)
        return f'with observations read only at the end, debug flag off changes the trajectory at operation {k}'
    return None


def directed_sequences(name, seed):
    """action sequences that walk the agent from the seeded initial state to every cell reachable under the reference
    navigation model (shortest paths); they drive the run onto telepods, obstacles, exits, keys"""
    from collections import deque

    from .. import refmodel as R

    env = envs.slot(name, 'plan', seed)
    env.reset()
    s0 = sdesc(env.state)
    allowed = [a.name for a in env.action_space.actions if a.name.startswith(('MOVE', 'TURN'))]
    start = (s0[1], s0[2], s0[3])
    paths = {start: []}
    dq = deque([start])
    while dq:
        p = dq.popleft()
        for a in allowed:
            s = (s0[0], p[0], p[1], p[2], s0[4])
            n = R.ref_turn_agent(R.ref_move_agent(s, a), a)
            q = (n[1], n[2], n[3])
            if q not in paths:
                paths[q] = paths[p] + [a]
                dq.append(q)
    best = {}
    for (y, x, h), path in paths.items():
        if (y, x) not in best or len(path) < len(best[(y, x)]):
            best[(y, x)] = path
    return [p + [allowed[0]] for p in best.values() if p]


def _directed_work(job):
    name, seed = job
    n = ops = 0
    fails = []
    for seq in directed_sequences(name, seed):
        n += 1
        ops += (len(seq) + 1) * 3
        m = judge_twin(name, seed, seq, fresh_envs=(n == 1))
        if m and len(fails) < 2:
            fails.append({'kind': 'twin', 'config': name, 'seed': seed, 'seq': seq, 'message': f'{name} seed {seed} {seq}: {m}',
                          'sig': {'part': 'twin', 'config': name}, 'simplicity': len(seq)})
    return n, ops, fails


def _twin_work(job):
    name, seed, first_actions, depth = job
    env = envs.fresh(name, seed)
    acts = [a.name for a in env.action_space.actions]
    n = 0
    fails = []
    for first in first_actions:
        for rest in itertools.product(acts, repeat=depth - 1):
            seq = [first] + list(rest)
            n += 1
            m = judge_twin(name, seed, seq, fresh_envs=(n == 1))
            if m and len(fails) < 2:
                fails.append({'kind': 'twin', 'config': name, 'seed': seed, 'seq': seq, 'message': f'{name} seed {seed} {seq}: {m}',
                              'sig': {'part': 'twin', 'config': name}, 'simplicity': len(seq)})
    return n, n * (depth + 1) * 3, fails


# ---------------------------------------------------------------- 2: interleavings
OTHER_CONFIG = {'synthetic': 'dynamic_obstacles.7x7', 'teleport.5x5': 'teleport.7x7', 'dynamic_obstacles.5x5': 'dynamic_obstacles.7x7',
                'memory_four_rooms.7x7': 'memory_four_rooms.9x9', 'dynamic_obstacles.7x7': 'dynamic_obstacles.5x5'}

NOISE = {
    'numpy': [lambda: np.random.random(), lambda: gvrng.reset_gv_rng(7)],
    'python': [lambda: pyrandom.random(), lambda: gvrng.get_gv_rng().random()],
    'debug': [lambda: reset_gv_debug(False), lambda: reset_gv_debug(True)],
}


def judge_interleaving(name, seed, merge, noise, acts, fresh_envs=True):
    """merge: list of (owner, op index).  owners: 0 = A, 1 = B (seeded alike), 2 = U (unseeded), 3 = noise"""
    a1, a2 = Action[acts[0]], Action[acts[1]]

    def ops_for(e):
        def step_read(a):
            r, d = e.step(a)
            return envs.snapshot(e, r, d)
        return [lambda: (e.reset(), envs.snapshot(e))[1], lambda: step_read(a1), lambda: step_read(a2)]

    if fresh_envs:
        solo_env = envs.fresh(name, seed)
    else:
        solo_env = envs.slot(name, 'solo', seed)
    reset_gv_debug(True)
    solo = [f() for f in ops_for(solo_env)]
    # the unseeded environment comes from a DIFFERENT configuration (another layout with the same stochastic components),
    # and reads its observation: anything shared between environments at module / class level is disturbed by it
    other = OTHER_CONFIG.get(name, name)
    if fresh_envs:
        A, B, U = envs.fresh(name, seed), envs.fresh(name, seed), envs.fresh(other, None)
    else:
        A, B, U = envs.slot(name, 'A', seed), envs.slot(name, 'B', seed), envs.slot(other, 'U', None)
    oA, oB = ops_for(A), ops_for(B)
    ua = list(U.action_space.actions)[0]
    oU = [lambda: (U.reset(), U.observation), lambda: (U.step(ua), U.observation)]
    hist = {0: [], 1: []}
    try:
        for owner, i in merge:
            if owner == 0:
                hist[0].append(oA[i]())
            elif owner == 1:
                hist[1].append(oB[i]())
            elif owner == 2:
                oU[i]()
            else:
                NOISE[noise][i]()
    finally:
        reset_gv_debug(True)
    for w in (0, 1):
        if hist[w] != solo:
            k = next(i for i, (x, y) in enumerate(zip(hist[w], solo)) if x != y)
            return (f'seeded environment {"AB"[w]} diverges from its solo run at its operation {k} under interleaving '
                    f'{"".join("ABUN"[o] for o, _ in merge)} (noise={noise})')
    return None


SAME_SHAPE_PAIRS = [('keydoor.5x5', 'teleport.5x5'), ('teleport.5x5', 'keydoor.5x5'), ('keydoor.7x7', 'crossing.7x7'),
                    ('crossing.7x7', 'teleport.7x7'), ('dynamic_obstacles.5x5', 'keydoor.5x5'), ('memory.5x5', 'crossing.5x5'),
                    ('teleport.7x7', 'keydoor.7x7'), ('crossing.5x5', 'dynamic_obstacles.5x5'), ('empty.4x4', 'empty.4x4')]


def judge_bystander(name, other, seed, acts):
    """environment A (seeded) is run alone, and interleaved in every order with a bystander V built from ANOTHER
    configuration of the SAME grid shape (seeded differently): A's trajectory must not notice.  States are read right after
    each operation and again at the end (an object handed out at reset must not be moved by the other environment)."""
    a1, a2 = Action[acts[0]], Action[acts[1]]

    def ops_for(e):
        def step_read(a):
            r, d = e.step(a)
            return envs.snapshot(e, r, d)
        return [lambda: (e.reset(), envs.snapshot(e))[1], lambda: step_read(a1), lambda: step_read(a2)]

    solo = [f() for f in ops_for(envs.slot(name, 'solo', seed))]
    n = 0
    for pos in itertools.combinations(range(5), 2):
        for vseed in (seed + 5, seed + 6):
            A, V = envs.slot(name, 'A', seed), envs.slot(other, 'V', vseed)
            va = list(V.action_space.actions)
            oA = ops_for(A)
            oV = [lambda: (V.reset(), V.state, V.observation), lambda: (V.step(va[0]), V.observation)]
            hist = []
            ia = iv = 0
            order = ''
            for slot_i in range(5):
                if slot_i in pos:
                    oV[iv]()
                    iv += 1
                    order += 'V'
                else:
                    hist.append(oA[ia]())
                    ia += 1
                    order += 'A'
            n += 1
            if hist != solo:
                k = next(i for i, (x, y) in enumerate(zip(hist, solo)) if x != y)
                return n, (f'{name} (seed {seed}) diverges from its solo run at its operation {k} when interleaved as {order} with a '
                           f'{other} environment (seed {vseed}) of the same grid shape')
    return n, None


def _inter_work(job):
    name, seed, noise, acts, lo, step = job
    lists = [[0, 1, 2], [0, 1, 2], [0, 1], [0, 1]]
    n = 0
    fails = []
    for j, merge in enumerate(envs.merges(lists)):
        if j % step != lo:
            continue
        n += 1
        m = judge_interleaving(name, seed, merge, noise, acts, fresh_envs=(n == 1))
        if m and len(fails) < 2:
            fails.append({'kind': 'interleave', 'config': name, 'seed': seed, 'noise': noise, 'acts': acts, 'merge': merge,
                          'message': f'{name} seed {seed}: {m}', 'sig': {'part': 'interleaving', 'config': name}})
    return n, n * 10, fails


# ---------------------------------------------------------------- 5: hash order in process
class PermSet(set):
    """a set whose iteration order is the given permutation"""

    def __init__(self, items):
        super().__init__(items)
        self._order = list(items)

    def __iter__(self):
        return iter(self._order)


SET_PARAM_CALLS = [
    ('memory', {'shape': (5, 5)}),
    ('memory', {'shape': (6, 7)}),
    ('memory_rooms', {'shape': (7, 7), 'layout': (2, 2), 'num_beacons': 1, 'num_exits': 2}),
    ('memory_rooms', {'shape': (6, 6), 'layout': (1, 1), 'num_beacons': 2, 'num_exits': 3}),
]


def judge_hashorder(fn_name, params, colours, seed):
    fn = RSF.reset_function_registry[fn_name]
    kw = dict(params)
    kw['shape'] = Shape(*kw['shape'])
    results = {}
    for perm in itertools.permutations(colours):
        cols = PermSet([Color[c] for c in perm])
        st = fn(colors=cols, rng=np.random.default_rng(seed), **kw)
        results.setdefault(sdesc(st), []).append(perm)
    if len(results) > 1:
        groups = sorted(results.values(), key=len)
        return (f'{fn_name}({params}) with seed {seed} depends on the iteration order of its colour set: '
                f'{len(results)} different initial states over {sum(len(g) for g in groups)} orders, e.g. orders {groups[0][0]} vs {groups[-1][0]}')
    return None


# ---------------------------------------------------------------- 5b: reset functions under both debug settings
def judge_reset_debug(name, params, seed):
    """the same reset call with the same seed gives the same state whether the library's debug checks are on or off
    (a check that draws from the generator, or consumes what the sampling step reads, shifts the stream)"""
    from .. import resets as RSX
    outs = []
    for dbg in (True, False):
        reset_gv_debug(dbg)
        try:
            res = RSX.call(name, params, np.random.default_rng(seed))
        finally:
            reset_gv_debug(True)
        outs.append(None if isinstance(res, tuple) else sdesc(res))
    if outs[0] is None or outs[1] is None:
        # rejections are C13's subject; here only two accepted calls are compared
        return None
    if outs[0] != outs[1]:
        return f'{name}({params}) with seed {seed}: the initial state depends on the debug flag'
    return None


def _reset_debug_work(job):
    n = 0
    fails = []
    for name, params, seed in job:
        n += 1
        m = judge_reset_debug(name, params, seed)
        if m and len(fails) < 2:
            fails.append({'kind': 'reset_debug', 'name': name, 'params': params, 'seed': int(seed), 'message': m,
                          'sig': {'part': 'reset_debug', 'fn': name}})
    return n, fails


# ---------------------------------------------------------------- 6: hash order across processes
def run_hashworker(hashseed, seeds, names):
    env = dict(os.environ)
    env['PYTHONHASHSEED'] = str(hashseed)
    cmd = [sys.executable, '-W', 'ignore', '-m', 'mc.hashworker', ','.join(map(str, seeds))] + names
    r = subprocess.run(cmd, cwd=boot.VERIF, env=env, capture_output=True, text=True, timeout=900)
    for line in r.stdout.splitlines():
        if line.startswith('DIGESTS '):
            return json.loads(line[8:])
    raise SystemExit(f'INTERNAL: hashworker failed (hashseed {hashseed}): {r.stderr[-400:]}')


def judge_hashproc(name, seed, hashseeds):
    res = {}
    others = ['dynamic_obstacles.5x5', 'teleport.5x5', 'memory.5x5', 'keydoor.5x5']
    for i, h in enumerate(hashseeds):
        order = [name] + others if i % 2 == 0 else others + [name]
        d = {k: v for k, v in run_hashworker(h, [seed], order).items() if k.startswith(name + '|')}
        res.setdefault(json.dumps(d, sort_keys=True), []).append(h)
    if len(res) > 1:
        return f'{name} seed {seed}: trajectories differ between interpreter processes with PYTHONHASHSEED {sorted(res.values())}'
    return None


def replay(case):
    k = case['kind']
    if k == 'twin':
        return judge_twin(case['config'], case['seed'], case['seq'])
    if k == 'interleave':
        return judge_interleaving(case['config'], case['seed'], [tuple(m) for m in case['merge']], case['noise'], case['acts'])
    if k == 'hashorder':
        return judge_hashorder(case['fn'], {kk: (tuple(v) if isinstance(v, list) else v) for kk, v in case['params'].items()},
                               case['colours'], case['seed'])
    if k == 'reset_debug':
        return judge_reset_debug(case['name'], {kk: (tuple(v) if isinstance(v, list) else v) for kk, v in case['params'].items()}, case['seed'])
    if k == 'bystander':
        return judge_bystander(case['config'], case['other'], case['seed'], case['acts'])[1]
    if k == 'hashproc':
        return judge_hashproc(case['config'], case['seed'], case['hashseeds'])
    raise ValueError(k)


def run(rep, tier, seed):
    base = seed * 1000 + 3
    seeds = [base, base + 1, base + 2]
    zero_seeds = [0, np.int64(0)]  # falsy seeds are seeds too
    all_names = [n for n, _ in configs.all_configs()] + ['synthetic']
    if tier == 'quick':
        twin_cfg = [('synthetic', 3), ('synthetic_det', 2), ('teleport.5x5', 3), ('dynamic_obstacles.5x5', 3), ('keydoor.5x5', 2), ('memory.5x5', 2),
                    ('crossing.5x5', 2), ('empty.4x4', 2), ('four_rooms.7x7', 2), ('memory_four_rooms.7x7', 2), ('teleport.7x7', 2),
                    ('dynamic_obstacles.7x7', 2), ('keydoor.7x7', 2), ('crossing.7x7', 2)]
        twin_seeds = seeds[:2] + zero_seeds[:1]
    else:
        twin_cfg = [(n, 4 if n in ('synthetic', 'teleport.5x5', 'dynamic_obstacles.5x5') else 3) for n in all_names + ['synthetic_det']]
        twin_seeds = seeds + zero_seeds
    jobs = []
    for name, depth in twin_cfg:
        env = envs.fresh(name, 0)
        acts = [a.name for a in env.action_space.actions]
        for sd in twin_seeds:
            for a in acts:
                jobs.append((name, sd, [a], depth))
    tn = tops = 0
    fails = []
    for n, ops, fl in dyn.pmap_w('twin', _twin_work, jobs):
        tn += n
        tops += ops
        fails.extend(fl)
    djobs = [(name, sd) for name in ([n for n, _ in twin_cfg] if tier == 'quick' else all_names) for sd in twin_seeds]
    dn = dops = 0
    for n, ops, fl in dyn.pmap_w('directed', _directed_work, djobs):
        dn += n
        dops += ops
        fails.extend(fl)
    tn += dn
    tops += dops
    rep.part('directed_twin_runs', sequences=dn, operations=dops,
             rule='for every configuration and seed, one shortest action path from the seeded initial state to every cell '
             'reachable under the reference navigation model (drives the run onto telepods, obstacles, exits)')
    rep.part('twin_runs', configs=[f'{n} depth {d}' for n, d in twin_cfg], seeds=[int(x) for x in twin_seeds], sequences=tn, operations=tops,
             variants='env1 vs env2 (same seed) vs env3 (debug flag off); global-RNG tripwire after every operation')
    # interleavings
    inter_cfg = [('synthetic', ['MOVE_FORWARD', 'TURN_LEFT']), ('teleport.5x5', ['MOVE_FORWARD', 'MOVE_RIGHT']),
                 ('dynamic_obstacles.7x7', ['MOVE_FORWARD', 'TURN_LEFT'])]
    if tier != 'quick':
        inter_cfg += [('dynamic_obstacles.5x5', ['MOVE_FORWARD', 'TURN_RIGHT']), ('memory_four_rooms.7x7', ['TURN_LEFT', 'MOVE_FORWARD'])]
    acts_of = dict(inter_cfg)
    if tier == 'quick':
        combos = [('synthetic', 'numpy'), ('teleport.5x5', 'python'), ('dynamic_obstacles.7x7', 'debug')]
    else:
        combos = [(c, nz) for c in acts_of for nz in ('numpy', 'python', 'debug')]
    ijobs = []
    for name, noise in combos:
        for lo in range(32):
            ijobs.append((name, seeds[0], noise, acts_of[name], lo, 32))
    inn = iops = 0
    for n, ops, fl in dyn.pmap_w('inter', _inter_work, ijobs):
        inn += n
        iops += ops
        fails.extend(fl)
    rep.part('interleavings', merges=inn, operations=iops, lists='A:3 ops, B:3 ops (same seed), U:2 ops (unseeded), noise:2 ops; all 25200 merges per case',
             cases=sorted({(j[0], j[2]) for j in ijobs}))
    bn = 0
    for name, other in SAME_SHAPE_PAIRS:
        for sd in seeds[:2]:
            for acts in (['MOVE_FORWARD', 'TURN_LEFT'], ['TURN_RIGHT', 'MOVE_RIGHT']):
                k, m = judge_bystander(name, other, sd, acts)
                bn += k
                if m:
                    fails.append({'kind': 'bystander', 'config': name, 'other': other, 'seed': sd, 'acts': acts, 'message': m,
                                  'sig': {'part': 'bystander', 'config': name}})
    inn += bn
    rep.part('same_shape_bystanders', interleavings=bn, pairs=[f'{a} | {b}' for a, b in SAME_SHAPE_PAIRS])
    # hash order in process
    hn = 0
    for fn_name, params in SET_PARAM_CALLS:
        for colours in (['RED', 'GREEN'], ['RED', 'GREEN', 'BLUE'], ['RED', 'GREEN', 'BLUE', 'YELLOW']):
            if fn_name == 'memory_rooms' and params['num_exits'] > len(colours):
                continue
            for sd in seeds:
                hn += 1
                m = judge_hashorder(fn_name, params, colours, sd)
                if m:
                    fails.append({'kind': 'hashorder', 'fn': fn_name, 'params': params, 'colours': colours, 'seed': sd, 'message': m,
                                  'sig': {'part': 'hash_order', 'fn': fn_name}})
    # reset functions over the bounded parameter grid, debug flag on vs off
    from .. import resets as RSX
    rpts = [(n, p) for n, p in RSX.parameter_points(tier) if p['shape'][0] * p['shape'][1] <= (49 if tier == 'quick' else 81)]
    rjobs = [(n, p, sd) for n, p in rpts for sd in (seeds[:2] if tier == 'quick' else seeds)]
    rn = 0
    for n, fl in dyn.pmap_w('reset_debug', _reset_debug_work, [rjobs[i::64] for i in range(64)]):
        rn += n
        fails.extend(fl)
    hn += rn
    rep.part('reset_functions_debug_on_off', calls=rn, parameter_points=len(rpts))
    rep.part('hash_order_in_process', calls=hn - rn, permutations='all n! iteration orders of the colour set, n in 2..4')
    # across processes
    hashseeds = [0, 1, 2] + ([3, 4, 100 + seed] if tier != 'quick' else [100 + seed])
    names = all_names if tier != 'quick' else ['memory.5x5', 'memory_four_rooms.7x7', 'keydoor.5x5', 'teleport.5x5', 'synthetic',
                                                'dynamic_obstacles.5x5', 'dynamic_obstacles.7x7', 'memory_nine_rooms.10x10', 'four_rooms.7x7',
                                                'teleport.7x7']
    # the processes also differ in WHAT ELSE ran in them before each configuration (order of the configurations: as listed,
    # reversed, rotated): a trajectory must not depend on which other environments the process has hosted
    def order_for(i):
        return names if i % 3 == 0 else (list(reversed(names)) if i % 3 == 1 else names[len(names) // 2:] + names[:len(names) // 2])

    results = pmap(lambda ih: run_hashworker(ih[1], seeds[:2], order_for(ih[0])), list(enumerate(hashseeds)))
    keys = sorted(results[0])
    pn = 0
    for key in keys:
        vals = {}
        for h, r in zip(hashseeds, results):
            vals.setdefault(r[key], []).append(h)
        pn += 1
        if len(vals) > 1:
            cfg, sd, si = key.split('|')
            fails.append({'kind': 'hashproc', 'config': cfg, 'seed': int(sd), 'hashseeds': hashseeds,
                          'message': f'{cfg} seed {sd}: trajectories differ between interpreter processes (different PYTHONHASHSEED and different order of the other configurations run in the process): groups {sorted(vals.values())}',
                          'sig': {'part': 'hash_order', 'fn': cfg.split('.')[0]}})
    rep.part('hash_order_across_processes', hashseeds=hashseeds, configs=names, trajectories=pn)
    seen = set()
    uniq = []
    for f in fails:
        k = (f['kind'], json.dumps(f['sig'], sort_keys=True))
        if k in seen:
            continue
        seen.add(k)
        uniq.append(f)
    dyn.report_fails(rep, uniq, replay)
    rep.sample({'kind': 'twin', 'config': 'synthetic', 'seed': seeds[0], 'seq': ['MOVE_FORWARD', 'TURN_LEFT', 'MOVE_LEFT']})
    rep.sample({'kind': 'interleave', 'config': 'synthetic', 'seed': seeds[0], 'noise': 'numpy', 'acts': ['MOVE_FORWARD', 'TURN_LEFT'],
                'merge': [[0, 0], [1, 0], [3, 0], [2, 0], [0, 1], [1, 1], [2, 1], [3, 1], [0, 2], [1, 2]]})
    rep.exhaustive = False
    rep.assume('seeds and PYTHONHASHSEED values are finite sets (rotated by VERIF_SEED); the in-process permutation of set '
               'iteration order is what makes the hash-order part exhaustive')
    rep.assume('lazy creation of the library generator is not a draw; GymEnvironment.seed() is out of scope (gym version)')
    return rep.finish(
        states=tn + inn + hn + pn,
        transitions=tops + iops,
        validated=tops + iops,
        evaluations=tn + inn + hn + pn,
        distinct_nontrivial=tn + inn + hn + pn,
        rule='case = one action sequence (twin/debug/tripwire run), one interleaving, one (reset function, colour set, seed) over all '
        'iteration orders, or one trajectory compared across interpreter processes; all distinct',
    )


WORKERS = {'twin': _twin_work, 'directed': _directed_work, 'inter': _inter_work, 'reset_debug': _reset_debug_work}

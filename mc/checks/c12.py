"""C12 -- rewards and termination mean what they say, and agree with each other.

(a) triples (s, a, s') with s from the E1 universe and s' produced by the real dynamics (every outcome);
(b) arbitrary triples: all ordered pairs of a small state universe x all actions;
    every built-in reward / termination component (default and non-default parameters, through the function
    and through factory(name, **kw)), composites over all subsets of <=3 parts; determinism; rng tripwire.
(c) E3: on every edge of the shipped configurations the environment's reward equals the sum of the reference
    components named in the YAML, done equals the reference termination, and the exit reward is paid exactly
    when exit-termination fires.
"""
import itertools
import math
import numbers

import numpy as np

from gym_gridverse.envs import reward_functions as RW
from gym_gridverse.envs import terminating_functions as TM

from .. import configs, dyn, reach
from .. import refmodel as R
from .. import rewards as RR
from .. import universe as U
from ..desc import NONE, mkstate, sdesc, tup
from ..pool import pmap


class Tripwire:
    """stands in for the rng argument: any use is an error (components must be deterministic)"""

    def __getattr__(self, name):
        raise RuntimeError(f'reward/termination component used its rng argument (.{name})')


def _inst(name, **kw):
    return (name, kw)


REWARDS = [
    _inst('overlap', object_type='Exit'),
    _inst('overlap', object_type='Key', reward_on=3.0, reward_off=-2.5),
    _inst('living_reward'),
    _inst('living_reward', reward=3.0),
    _inst('reach_exit'),
    _inst('reach_exit', reward_on=3.0, reward_off=-2.5),
    _inst('bump_moving_obstacle'),
    _inst('bump_moving_obstacle', reward=3.0),
    _inst('proportional_to_distance', object_type='Exit'),
    _inst('proportional_to_distance', object_type='Key', distance_function='euclidean', reward_per_unit_distance=-2.5),
    _inst('getting_closer', object_type='Exit'),
    _inst('getting_closer', object_type='Key', distance_function='euclidean', reward_closer=3.0, reward_further=-2.5),
    _inst('getting_closer', object_type='Beacon', distance_function='manhattan', reward_closer=0.0, reward_further=3.0),
    _inst('getting_closer_shortest_path', object_type='Exit'),
    _inst('getting_closer_shortest_path', object_type='Key', reward_closer=3.0, reward_further=-2.5),
    _inst('bump_into_wall'),
    _inst('bump_into_wall', reward=3.0),
    _inst('actuate_door'),
    _inst('actuate_door', reward_open=3.0, reward_close=-2.5),
    _inst('pickndrop', object_type='Key'),
    _inst('pickndrop', object_type='Key', reward_pick=3.0, reward_drop=-2.5),
    _inst('pickndrop', object_type='Beacon', reward_pick=-2.5, reward_drop=0.0),
    _inst('reach_exit_memory'),
    _inst('reach_exit_memory', reward_good=3.0, reward_bad=-2.5),
]
# parameter values that are zero / equal to each other are parameter values too; these instances are built the way a
# configuration file builds them (YAML-shaped dictionary through the configuration loader's reward factory)
FIRST_YAML = len(REWARDS)
REWARDS += [
    _inst('living_reward', reward=0.0),
    _inst('reach_exit', reward_on=0.0, reward_off=2.0),
    _inst('overlap', object_type='Exit', reward_on=0, reward_off=-1.5),
    _inst('bump_into_wall', reward=0.0),
    _inst('bump_moving_obstacle', reward=0),
    _inst('getting_closer', object_type='Exit', distance_function='manhattan', reward_closer=2.0, reward_further=0.0),
    _inst('getting_closer', object_type='Exit', distance_function='euclidean', reward_closer=0.0, reward_further=0.0),
    _inst('getting_closer_shortest_path', object_type='Exit', reward_closer=0.0, reward_further=3.0),
    _inst('proportional_to_distance', object_type='Exit', distance_function='manhattan', reward_per_unit_distance=0.0),
    _inst('actuate_door', reward_open=0.0, reward_close=-1.5),
    _inst('pickndrop', object_type='Key', reward_pick=0.0, reward_drop=0.0),
    _inst('reach_exit_memory', reward_good=0.0, reward_bad=0.0),
]
TERMS = [
    _inst('overlap', object_type='Key'),
    _inst('overlap', object_type='Exit'),
    _inst('reach_exit'),
    _inst('bump_moving_obstacle'),
    _inst('bump_into_wall'),
]
COMPOSITE_PARTS = [4, 7, 11, 16, 18, 20]  # indices into REWARDS used for reduce_sum subsets
COMPOSITE_TERMS = [0, 2, 3, 4]

_cache = {}


def real_reward(i, via):
    key = ('r', i, via)
    if key not in _cache:
        name, kw = REWARDS[i]
        rk = RR.real_kwargs(kw)
        if via == 'yaml':
            from gym_gridverse.envs.yaml.factory import factory_reward_function
            _cache[key] = factory_reward_function(dict(kw, name=name))
        elif via == 'factory':
            _cache[key] = RW.factory(name, **rk)
        else:
            fn = RW.reward_function_registry[name]
            _cache[key] = (lambda s, a, s2, rng=None, fn=fn, rk=rk: fn(s, a, s2, rng=rng, **rk))
    return _cache[key]


def real_term(i, via):
    key = ('t', i, via)
    if key not in _cache:
        name, kw = TERMS[i]
        rk = RR.real_kwargs(kw)
        if via == 'factory':
            _cache[key] = TM.factory(name, **rk)
        else:
            fn = TM.terminating_function_registry[name]
            _cache[key] = (lambda s, a, s2, rng=None, fn=fn, rk=rk: fn(s, a, s2, rng=rng, **rk))
    return _cache[key]


def composite_reward(idx):
    key = ('cr', idx)
    if key not in _cache:
        parts = [real_reward(i, 'factory') for i in idx]
        _cache[key] = RW.factory('reduce_sum', reward_functions=parts)
    return _cache[key]


def composite_term(idx, how):
    key = ('ct', idx, how)
    if key not in _cache:
        parts = [real_term(i, 'factory') for i in idx]
        _cache[key] = TM.factory(how, terminating_functions=parts)
    return _cache[key]


def is_number(v):
    return isinstance(v, numbers.Real) and not isinstance(v, (bool, np.bool_)) and math.isfinite(float(v))


def close(a, b):
    return math.isclose(float(a), float(b), rel_tol=1e-9, abs_tol=1e-12)


TW = Tripwire()
SUBSETS_R = [c for k in (1, 2, 3) for c in itertools.combinations(COMPOSITE_PARTS, k)]
SUBSETS_T = [c for k in (1, 2, 3) for c in itertools.combinations(COMPOSITE_TERMS, k)]


def judge_triple(s, a, s2, st=None, st2=None, composites=True, only=None):
    """evaluate every applicable component on one triple; returns (n_evals, message|None, sig)"""
    st = st or mkstate(s)
    st2 = st2 or mkstate(s2)
    act = dyn.ACT[a]
    n = 0
    vals = {}
    for i, (name, kw) in enumerate(REWARDS):
        if only is not None and ('r', i) not in only:
            continue
        if not RR.precondition(name, kw, s, s2):
            continue
        want = RR.REWARD_REF[name](s, a, s2, **kw)
        vias = ('yaml',) if i >= FIRST_YAML else (('factory', 'direct') if not kw else ('factory',))
        for via in vias:
            fn = real_reward(i, via)
            n += 1
            sig = {'component': 'reward:' + name, 'front': dyn.front_class(s)}
            try:
                got = fn(st, act, st2, rng=TW)
                again = fn(st, act, st2, rng=TW)
            except Exception as e:  # noqa: BLE001
                return n, f'reward {name}{kw} ({via}) raised {type(e).__name__}: {e}', sig
            if not is_number(got):
                return n, f'reward {name}{kw} returned {got!r}, not a finite real number', sig
            if got != again:
                return n, f'reward {name}{kw} is not deterministic ({got} then {again})', sig
            if not close(got, want):
                return n, f'reward {name}{kw} ({via}) on {a} = {got}, reference {want}', sig
        vals[i] = want
    tvals = {}
    for i, (name, kw) in enumerate(TERMS):
        if only is not None and ('t', i) not in only:
            continue
        want = RR.TERM_REF[name](s, a, s2, **kw)
        for via in ('factory', 'direct'):
            fn = real_term(i, via)
            n += 1
            sig = {'component': 'termination:' + name, 'front': dyn.front_class(s)}
            try:
                got = fn(st, act, st2, rng=TW)
            except Exception as e:  # noqa: BLE001
                return n, f'termination {name}{kw} ({via}) raised {type(e).__name__}: {e}', sig
            if not isinstance(got, (bool, np.bool_)):
                return n, f'termination {name}{kw} returned {got!r}, not a boolean', sig
            if bool(got) != want:
                return n, f'termination {name}{kw} ({via}) on {a} = {got}, reference {want}', sig
        tvals[i] = want
    # agreement: exit reward paid exactly when exit-termination fires
    if 5 in vals and 2 in tvals and (vals[5] == 3.0) != tvals[2]:
        return n, 'reference inconsistency (exit reward vs termination)', {'component': 'INTERNAL'}
    if composites and only is None:
        for idx in SUBSETS_R:
            if any(i not in vals for i in idx):
                continue
            n += 1
            sig = {'component': 'reward:reduce_sum'}
            try:
                got = composite_reward(idx)(st, act, st2, rng=TW)
            except Exception as e:  # noqa: BLE001
                return n, f'reduce_sum over {[REWARDS[i][0] for i in idx]} raised {type(e).__name__}: {e}', sig
            want = sum(vals[i] for i in idx)
            if not is_number(got) or not close(got, want):
                return n, f'reduce_sum over {[REWARDS[i] for i in idx]} = {got!r}, sum of parts {want}', sig
        for idx in SUBSETS_T:
            for how, red in (('reduce_any', any), ('reduce_all', all)):
                n += 1
                sig = {'component': 'termination:' + how}
                try:
                    got = composite_term(idx, how)(st, act, st2, rng=TW)
                except Exception as e:  # noqa: BLE001
                    return n, f'{how} raised {type(e).__name__}: {e}', sig
                want = red(tvals[i] for i in idx)
                if not isinstance(got, (bool, np.bool_)) or bool(got) != want:
                    return n, f'{how} over {[TERMS[i] for i in idx]} = {got!r}, parts give {want}', sig
    return n, None, {}


# ---------------------------------------------------------------- (a) universe with real dynamics
CHAINS = [dyn.CHAIN_FULL]


def judge(names, s, a):
    if R.blocks_move(s[0][s[1]][s[2]]):
        return 0, False, None, {}  # agent on a blocking cell: unreachable (C08), outside the components' domain
    fn = dyn.chain_fn(names)
    outs, capped = dyn.outcomes(fn, s, a, max_runs=64)
    st = mkstate(s)
    n = 0
    seen = set()
    for choices, res in outs:
        if dyn.is_exc(res) or res in seen:
            continue
        seen.add(res)
        k, msg, sig = judge_triple(s, a, res, st=st, composites=(len(s[0]) * len(s[0][0]) <= 4))
        n += k
        if msg:
            return n, True, f'{msg} | next: agent {(res[1], res[2], res[3])} held {res[4][0]}', dict(sig, s2=res)
    nontrivial = R.nonfloor_count(s[0]) >= 1
    return n, nontrivial, None, {}


_worker = dyn.make_worker(judge, uses_held=lambda names: True)


# ---------------------------------------------------------------- (b) arbitrary pairs
def pair_universe(tier):
    shape = (2, 2)
    sigma = [U.WALL, U.exit_(0), U.key(U.C1), U.door(1, U.C1), U.door(0, U.C1), U.OBST, U.beacon(U.C1)]
    if tier == 'quick':
        sigma = sigma[:5] + [U.OBST]
    states = []
    for rows in U.grids(shape, sigma, 1):
        for y, x, h in U.poses(shape):
            if tier == 'quick' and (h in ('B', 'L') or (y, x) == (1, 1)):
                continue
            if R.blocks_move(rows[y][x]):
                continue
            for held in (NONE, U.key(U.C1)):
                states.append((rows, y, x, h, held))
    return states


def _pairs_work(job):
    states, lo, hi = job
    built = [mkstate(s) for s in states]
    n = cases = 0
    fails = []
    for i in range(lo, hi):
        for j in range(len(states)):
            for a in R.ACTIONS:
                k, msg, sig = judge_triple(states[i], a, states[j], st=built[i], st2=built[j], composites=False)
                n += k
                cases += 1
                if msg and len(fails) < 4:
                    fails.append({'kind': 'triple', 's': states[i], 'a': a, 's2': states[j], 'message': msg,
                                  'sig': dict(sig, part='arbitrary_pairs')})
    return n, cases, fails


def judge_mutation_history(s_a, a, s_b, s_c):
    """components are functions of the VALUES of (state, action, next state): evaluate on (A, a, B), then change object B
    in place into the value C and evaluate on (B-object, a, A): must equal the reference on (C, a, A)"""
    A, B = mkstate(s_a), mkstate(s_b)
    act = dyn.ACT[a]
    n = 0
    for i, (name, kw) in enumerate(REWARDS):
        if not RR.precondition(name, kw, s_a, s_b) or not RR.precondition(name, kw, s_c, s_a):
            continue
        fn = real_reward(i, 'factory')
        n += 1
        try:
            fn(A, act, B, rng=TW)
            # in-place change of the object that has just been `next_state`
            B.agent.position = type(B.agent.position)(s_c[1], s_c[2])
            B.agent.orientation = mkstate(s_c).agent.orientation
            got = fn(B, act, A, rng=TW)
        except Exception as e:  # noqa: BLE001
            return n, f'reward {name}{kw} raised {type(e).__name__} in a mutate-in-place history: {e}', {'component': 'reward:' + name}
        want = RR.REWARD_REF[name](s_c, a, s_a, **kw)
        if not close(got, want):
            return n, (f'reward {name}{kw} on {a} = {got}, reference {want}, when `state` is an object that was `next_state` of the '
                       f'previous evaluation and was modified in place since (the component must depend on values only)'), {'component': 'reward:' + name}
        B = mkstate(s_b)
    return n, None, {}


def judge_subclass_overlap():
    """an instance of a user-defined subclass of Exit / Key IS an exit / a key: the exit (overlap) reward is paid on exactly
    the steps on which the exit (overlap) termination fires, and both follow the agent's next cell"""
    from .. import reps  # noqa: F401 -- registers the harness-defined subclasses
    n = 0
    pairs = [(ri, ti) for ri, (rn, rkw) in enumerate(REWARDS) for ti, (tn, tkw) in enumerate(TERMS)
             if rn == tn and rn in ('overlap', 'reach_exit') and rkw.get('object_type') == tkw.get('object_type')]
    for obj, base in ((('VerifSubExit', 0, 0, None), 'Exit'), (('VerifSubExit', 0, U.C1, None), 'Exit'), (('VerifSubKey', 0, U.C1, None), 'Key'),
                      (U.exit_(0), 'Exit'), (U.key(U.C1), 'Key')):
        rows = ((U.FLOOR, obj, U.FLOOR),)
        for x2 in (0, 1, 2):
            s, s2 = (rows, 0, 0, 'R', NONE), (rows, 0, x2, 'R', NONE)
            st, st2 = mkstate(s), mkstate(s2)
            for ri, ti in pairs:
                rn, rkw = REWARDS[ri]
                n += 1
                try:
                    r = real_reward(ri, 'factory')(st, dyn.ACT['MOVE_FORWARD'], st2, rng=TW)
                    t = real_term(ti, 'factory')(st, dyn.ACT['MOVE_FORWARD'], st2, rng=TW)
                except Exception as e:  # noqa: BLE001
                    return n, f'{rn}{rkw} raised {type(e).__name__} on a cell holding a {obj[0]}: {e}'
                kind = rkw.get('object_type', 'Exit')
                should = x2 == 1 and kind == base
                if bool(t) != should:
                    return n, f'termination {rn}{rkw} = {t} with the agent {"on" if x2 == 1 else "off"} a {obj[0]} (an instance of {base})'
                if rn == 'overlap':
                    want = rkw.get('reward_on', 1.0) if should else rkw.get('reward_off', 0.0)
                else:
                    want = RR.REWARD_REF[rn](s, 'MOVE_FORWARD', ((((U.FLOOR, (base, 0, obj[2], None), U.FLOOR),), 0, x2, 'R', NONE)), **rkw)
                if not close(r, want):
                    return n, (f'reward {rn}{rkw} = {r} with the agent {"on" if x2 == 1 else "off"} a {obj[0]} (an instance of {base}), '
                               f'expected {want}: the reward is not paid on exactly the steps on which the termination fires ({bool(t)})')
    return n, None


def maze_triples():
    """serpentine corridors: the shortest path between neighbouring corridor cells' distances is far longer than the
    perimeter of the grid.  Yields (s, action, s2) for a step towards / away from the exit at every corridor cell"""
    for h, w in ((9, 9), (7, 11), (11, 7), (13, 5)):
        rows = [[U.FLOOR] * w for _ in range(h)]
        for y in range(1, h, 2):
            for x in range(w):
                rows[y][x] = U.WALL
            rows[y][(w - 1) if (y // 2) % 2 == 0 else 0] = U.FLOOR
        path = []
        for y in range(0, h, 2):
            xs = list(range(w)) if (y // 2) % 2 == 0 else list(range(w - 1, -1, -1))
            path += [(y, x) for x in xs]
            if y + 1 < h:
                path.append((y + 1, xs[-1]))
        rows[path[-1][0]][path[-1][1]] = U.exit_(0)
        rows = tuple(tuple(r) for r in rows)
        for i in range(len(path) - 1):
            a, b = path[i], path[i + 1]
            yield (rows, a[0], a[1], 'F', NONE), 'MOVE_FORWARD', (rows, b[0], b[1], 'F', NONE)
            yield (rows, b[0], b[1], 'F', NONE), 'MOVE_FORWARD', (rows, a[0], a[1], 'F', NONE)
        # and a jump across a wall: adjacent cells whose path distance differs by a whole corridor
        yield (rows, 0, 0, 'F', NONE), 'MOVE_FORWARD', (rows, 2, 0, 'F', NONE)
        yield (rows, 2, 0, 'F', NONE), 'MOVE_FORWARD', (rows, 0, 0, 'F', NONE)


def far_triples():
    """a long corridor: steps at right angles to the direction of a far-away target change the Euclidean distance by ~1/(2d)
    (still a change: the shaping reward has its sign), steps along it by 1"""
    for h, w in ((3, 300), (300, 3)):
        rows = [[U.FLOOR] * w for _ in range(h)]
        ky, kx = (1, 0) if w > h else (0, 1)
        rows[ky][kx] = U.key(U.C1)
        rows[h - 1][w - 1] = U.exit_(0)
        rows = tuple(tuple(r) for r in rows)
        for d in (1, 2, 9, 99, 199, 223, 224, 230, 249, 298):
            if w > h:
                a, b, c = (1, d), (2, d), (1, d + 1)
            else:
                a, b, c = (d, 1), (d, 2), (d + 1, 1)
            for p, q in ((a, b), (b, a), (a, c), (c, a)):
                yield (rows, p[0], p[1], 'F', NONE), 'MOVE_FORWARD', (rows, q[0], q[1], 'F', NONE)


def memory_universe():
    """states with a beacon and TWO exits, colours over {C1, C2}^2 (so that several exits may match the beacon)"""
    out = []
    cells = [(0, 0), (0, 1), (0, 2), (1, 0), (1, 1), (1, 2)]
    for b, e1, e2 in itertools.permutations(cells, 3):
        if e1 > e2:
            continue
        for c1 in (U.C1, U.C2):
            for c2 in (U.C1, U.C2):
                rows = [[U.FLOOR] * 3 for _ in range(2)]
                rows[b[0]][b[1]] = U.beacon(U.C1)
                rows[e1[0]][e1[1]] = U.exit_(c1)
                rows[e2[0]][e2[1]] = U.exit_(c2)
                rows = tuple(tuple(r) for r in rows)
                for pos in (e1, e2, b):
                    out.append((rows, pos[0], pos[1], 'F', NONE))
    return out


# ---------------------------------------------------------------- (c) shipped configurations
def make_hooks(env, name):
    data = configs.load(dict(configs.all_configs())[name])
    ref_r = RR.ref_reward_spec(data['reward_functions'])
    ref_t = RR.ref_term_spec(data['terminating_function'])
    exit_specs = [sp for sp in data['reward_functions'] if sp['name'] in ('reach_exit', 'reach_exit_memory')]
    exit_fns = [RW.factory(sp['name'], **RR.real_kwargs({k: v for k, v in sp.items() if k != 'name'})) for sp in exit_specs]
    exit_term = TM.factory('reach_exit')

    def on_edge(k, st, a, choices, k2, st2, reward, done, g):
        want = ref_r(k, a.name, k2)
        if want is not None:
            total, parts = want
            if not is_number(reward) or not close(reward, total):
                return f'environment reward {reward!r} on {a.name} != sum of reference components {total} {parts}'
        wt = ref_t(k, a.name, k2)
        if not isinstance(done, (bool, np.bool_)) or bool(done) != wt:
            return f'environment termination {done!r} on {a.name} != reference {wt}'
        fires = bool(exit_term(st, a, st2))
        for sp, fn in zip(exit_specs, exit_fns):
            r = fn(st, a, st2)
            if sp['name'] == 'reach_exit':
                paid = close(r, sp.get('reward_on', 1.0)) and not close(sp.get('reward_on', 1.0), sp.get('reward_off', 0.0))
            else:
                paid = not close(r, 0.0)
            if paid != fires:
                return f'exit reward component {sp["name"]} = {r} while exit-termination = {fires}'
        return None

    return None, on_edge


def replay(case):
    if case['kind'] == 'job':
        return dyn.replay_job(case, _worker)
    if case['kind'] == 'step':
        return judge(tuple(case['names']), tup(case['s']), case['a'])[2]
    if case['kind'] == 'triple':
        return judge_triple(tup(case['s']), case['a'], tup(case['s2']), composites=False)[1]
    if case['kind'] == 'reach':
        return reach.replay_trace(case, make_hooks)
    if case['kind'] == 'mutation_history':
        return judge_mutation_history(tup(case['s']), case['a'], tup(case['s2']), tup(case['s3']))[1]
    if case['kind'] == 'far':
        dist_only = {('r', i) for i, (nm, _) in enumerate(REWARDS) if nm in ('getting_closer', 'proportional_to_distance')}
        return judge_triple(tup(case['s']), case['a'], tup(case['s2']), composites=False, only=dist_only)[1]
    if case['kind'] == 'maze':
        sp_only = {('r', i) for i, (nm, _) in enumerate(REWARDS) if nm == 'getting_closer_shortest_path'}
        return judge_triple(tup(case['s']), case['a'], tup(case['s2']), composites=False, only=sp_only)[1]
    if case['kind'] == 'subclass_overlap':
        return judge_subclass_overlap()[1]
    if case['kind'] == 'memory':
        return judge_triple(tup(case['s']), case['a'], tup(case['s2']), composites=False, only={('r', 22), ('r', 23), ('t', 2)})[1]
    raise ValueError(case['kind'])


def run(rep, tier, seed):
    plan = dyn.standard_plan(tier, CHAINS, CHAINS, held_lo='two', held_hi='two', sigma_hi='rew5', quick_hi_max_cells=6)
    rep.bounds['components'] = {'rewards': [f'{n}{kw}' for n, kw in REWARDS], 'terminations': [f'{n}{kw}' for n, kw in TERMS],
                                'composites': f'{len(SUBSETS_R)} reduce_sum subsets, {len(SUBSETS_T)} x (any, all)'}
    for e in plan:
        e['cost'] = 6  # relative cost of one case (job sizing)
    tot = dyn.run_universe(rep, plan, _worker, replay)
    states = pair_universe(tier)
    rep.bounds['pair_universe'] = {'states': len(states), 'triples': len(states) ** 2 * 8}
    step = max(1, len(states) // 64)
    jobs = [(states, lo, min(len(states), lo + step)) for lo in range(0, len(states), step)]
    pn = pc = 0
    pf = []
    for n, cases, fails in dyn.pmap_w('pairs', _pairs_work, jobs):
        pn += n
        pc += cases
        pf.extend(fails)
    dyn.report_fails(rep, pf, replay)
    rep.part('arbitrary_pairs', states=len(states), triples=pc, evaluations=pn)
    # in-place mutation histories and the memory reward with several exits of the beacon colour
    mh = mem = 0
    extra = []
    for obj in (U.exit_(0), U.key(U.C1), U.beacon(U.C1), U.door(1, U.C1)):
        rows = ((U.FLOOR, U.FLOOR, obj), (U.FLOOR, U.FLOOR, U.FLOOR))
        hist_states = [(rows, y, x, 'F', NONE) for y in range(2) for x in range(3) if (y, x) != (0, 2)]
        for s_a in hist_states:
            for s_b in hist_states:
                for s_c in hist_states:
                    if s_c == s_b:
                        continue
                    k, m, sig = judge_mutation_history(s_a, 'MOVE_FORWARD', s_b, s_c)
                    mh += k
                    if m and len(extra) < 2:
                        extra.append({'kind': 'mutation_history', 's': s_a, 'a': 'MOVE_FORWARD', 's2': s_b, 's3': s_c, 'message': m,
                                      'sig': dict(sig, part='mutation_history')})
    for s2 in memory_universe():
        for s1 in (s2, (s2[0], 0, 0, 'F', NONE)):
            k, m, sig = judge_triple(s1, 'MOVE_FORWARD', s2, composites=False, only={('r', 22), ('r', 23), ('t', 2)})
            mem += k
            if m and len([e for e in extra if e['kind'] == 'memory']) < 2:
                extra.append({'kind': 'memory', 's': s1, 'a': 'MOVE_FORWARD', 's2': s2, 'message': m, 'sig': dict(sig, part='memory_two_exits')})
    sp_only = {('r', i) for i, (nm, _) in enumerate(REWARDS) if nm == 'getting_closer_shortest_path'}
    mz = 0
    for s1, a, s2 in maze_triples():
        k, m, sig = judge_triple(s1, a, s2, composites=False, only=sp_only)
        mz += k
        if m and len([e for e in extra if e['kind'] == 'maze']) < 2:
            extra.append({'kind': 'maze', 's': s1, 'a': a, 's2': s2, 'message': m, 'sig': dict(sig, part='maze')})
    rep.part('serpentine_mazes', evaluations=mz, shapes=['9x9', '7x11', '11x7', '13x5'])
    dist_only = {('r', i) for i, (nm, _) in enumerate(REWARDS) if nm in ('getting_closer', 'proportional_to_distance')}
    fz = 0
    for s1, a, s2 in far_triples():
        k, m, sig = judge_triple(s1, a, s2, composites=False, only=dist_only)
        fz += k
        if m and len([e for e in extra if e['kind'] == 'far']) < 2:
            extra.append({'kind': 'far', 's': s1, 'a': a, 's2': s2, 'message': m, 'sig': dict(sig, part='far_targets')})
    rep.part('far_targets', evaluations=fz, shapes=['3x300', '300x3'])
    k, m = judge_subclass_overlap()
    if m:
        extra.append({'kind': 'subclass_overlap', 'message': m, 'sig': {'part': 'subclass_overlap'}})
    rep.part('subclass_instances', evaluations=k)
    dyn.report_fails(rep, extra, replay)
    rep.part('mutation_histories', evaluations=mh)
    rep.part('memory_reward_two_exits', evaluations=mem)
    rep.sample({'kind': 'triple', 's': states[3], 'a': 'ACTUATE', 's2': states[-5]})
    if tier == 'quick':
        names, init_limit, max_states, gcap = configs.SMALL + ['crossing.7x7', 'four_rooms.7x7', 'memory_four_rooms.7x7',
                                                               'keydoor.7x7'], 150, 6000, 3
    else:
        names, init_limit, max_states, gcap = configs.SMALL + ['crossing.7x7', 'four_rooms.7x7', 'memory_four_rooms.7x7', 'keydoor.7x7'], 200, 8000, 4
    rs, rt = dyn.run_reach(rep, names, init_limit, max_states, make_hooks, replay, 'reward_termination', group_cap=gcap, lineages=2)
    rep.assume('distance rewards are only evaluated on triples with exactly one target object, the memory reward only with a '
               'beacon present (documented preconditions); agent never on a movement-blocking cell (C08)')
    return rep.finish(
        states=tot['states'] + len(states) + rs,
        transitions=tot['exec'] + pn + rt,
        validated=tot['exec'] + pn + rt,
        evaluations=tot['exec'] + pn + rt,
        distinct_nontrivial=tot['nontrivial'] + pc,
        rule='evaluation = one (component instance, triple) comparison with the reference; triples are distinct by '
        'construction; non-trivial = universe triples whose grid has a non-floor cell, plus every arbitrary-pair triple',
    )


WORKERS = {'pairs': _pairs_work}

"""C04 -- the stateful interface mirrors the functional one; observations are never stale.

All operation sequences up to depth D over {reset, step(a) x3, read observation, read state, read outer
observation, read outer state} (including reads/steps before any reset), on shipped configurations and on a
synthetic one whose stepping AND observing consume randomness.  A twin (same data, same seed) is driven only
through functional_reset / functional_step / functional_observation, calling functional_observation exactly at
the first read after each state change; states, rewards, flags, observations, numeric representations and the
generators' bit states must agree after every operation.
"""
import itertools

import numpy as np

from gym_gridverse.action import Action
from gym_gridverse.outer_env import OuterEnv
from gym_gridverse.representations.observation_representations import make_observation_representation
from gym_gridverse.representations.state_representations import make_state_representation

from .. import dyn, envs
from ..desc import sdesc
from ..pool import pmap

# step0 / step2 go through the outer environment, step1 and ireset drive the INNER environment directly (public API,
# used by the library itself); badstep is an action outside a restricted action space (must raise and change nothing)
OPS = ['reset', 'step0', 'step1', 'step2', 'obs', 'state', 'oobs', 'ostate', 'ireset', 'badstep', 'turnfobs', 'fobs']
CORE_OPS = ['reset', 'step0', 'step1', 'obs', 'oobs', 'ostate', 'badstep', 'turnfobs', 'fobs']


def rng_state(env):
    return env._rng.bit_generator.state


def arrays_equal(a, b):
    return set(a) == set(b) and all(np.array_equal(a[k], b[k]) and a[k].dtype == b[k].dtype for k in a)


def judge_sequence(name, seed, seq, repname, acts, fresh_envs=False):
    if fresh_envs:
        env, twin = envs.fresh(name, seed), envs.fresh(name, seed)
    else:
        env, twin = envs.slot(name, 'stateful', seed), envs.slot(name, 'functional', seed)
    srep = make_state_representation(repname, env.state_space) if env.state_space.can_be_represented else None
    orep = make_observation_representation(repname, env.observation_space)
    outer = OuterEnv(env, state_representation=srep, observation_representation=orep)
    t_state = t_obs = None
    last_obs = None
    for i, op in enumerate(seq):
        where = f'operation {i} ({op}) of {seq}'
        if t_state is None and op not in ('reset', 'ireset'):
            try:
                if op == 'badstep':
                    bad = next((x for x in Action if x not in env.action_space.actions), acts[0])
                    try:
                        outer.step(bad)
                    except (RuntimeError, ValueError):
                        raise RuntimeError('rejected')
                elif op.startswith('step'):
                    (env.step if op == 'step1' else outer.step)(acts[int(op[4])])
                elif op == 'obs':
                    env.observation
                elif op == 'state':
                    env.state
                elif op == 'oobs':
                    outer.observation
                else:
                    outer.state
            except RuntimeError:
                if rng_state(env) != rng_state(twin):
                    return f'{where}: a rejected operation before the first reset consumed randomness'
                continue
            except Exception as e:  # noqa: BLE001
                return f'{where}: before the first reset raised {type(e).__name__}, expected RuntimeError'
            return f'{where}: succeeded before the first reset (expected RuntimeError)'
        if op in ('reset', 'ireset'):
            if op == 'reset':
                outer.reset()
            else:
                env.reset()
            t_state, t_obs, last_obs = twin.functional_reset(), None, None
        elif op == 'badstep':
            bad = next((x for x in Action if x not in env.action_space.actions), None)
            if bad is None:
                continue
            try:
                outer.step(bad)
            except ValueError:
                pass
            except Exception as e:  # noqa: BLE001
                return f'{where}: an action outside the action space raised {type(e).__name__}, expected ValueError'
            else:
                return f'{where}: an action outside the action space was accepted'
        elif op == 'turnfobs':
            # the current state object is turned IN PLACE (the library's own in-place transition function), then the
            # functional observation of that very object is asked for: it must be the observation of its new value
            from gym_gridverse.envs.transition_functions import transition_function_registry as _TF
            _TF['turn_agent'](env.state, Action.TURN_LEFT)
            _TF['turn_agent'](t_state, Action.TURN_LEFT)
            got = env.functional_observation(env.state)
            want = twin.functional_observation(t_state)
            if sdesc(got) != sdesc(want):
                return f'{where}: functional_observation of the current state object, after it was changed in place, is stale'
            env._observation = None  # the stateful memo is knowingly outdated after an external in-place change
            t_obs, last_obs = None, None
        elif op == 'fobs':
            # a functional question about the live state object: answered like the twin's, and the stateful memo (if any)
            # is neither created nor replaced by it
            got = env.functional_observation(env.state)
            want = twin.functional_observation(t_state)
            if sdesc(got) != sdesc(want):
                return f'{where}: functional_observation(env.state) differs from the functional twin'
        elif op.startswith('step'):
            a = acts[int(op[4])]
            r, d = (env.step(a) if op == 'step1' else outer.step(a))
            t_state, tr, td = twin.functional_step(t_state, a)
            t_obs, last_obs = None, None
            if r != tr or bool(d) != bool(td):
                return f'{where}: stateful step returned ({r}, {d}), functional step ({tr}, {td})'
        elif op in ('obs', 'oobs'):
            before = rng_state(env)
            had_memo = last_obs is not None
            o = env.observation if op == 'obs' else None
            arrays = outer.observation if op == 'oobs' else None
            if o is None:
                o = env.observation
            if t_obs is None:
                t_obs = twin.functional_observation(t_state)
            if sdesc(o) != sdesc(t_obs):
                return f'{where}: the current observation is not the observation of the current state'
            if had_memo:
                if rng_state(env) != before:
                    return f'{where}: a repeated observation read consumed randomness'
                if sdesc(o) != last_obs:
                    return f'{where}: a repeated observation read returned a different observation'
            last_obs = sdesc(o)
            if arrays is not None and not arrays_equal(arrays, orep.convert(t_obs)):
                return f'{where}: outer observation is not the representation of the inner observation'
        elif op == 'state':
            if sdesc(env.state) != sdesc(t_state):
                return f'{where}: stateful state differs from the functionally threaded state'
        elif op == 'ostate':
            if srep is None:
                try:
                    outer.state
                except RuntimeError:
                    pass
                else:
                    return f'{where}: outer state available without a state representation'
            elif not arrays_equal(outer.state, srep.convert(t_state)):
                return f'{where}: outer state is not the representation of the inner state'
        if sdesc(env._state) != sdesc(t_state):
            return f'{where}: stateful state differs from the functionally threaded state'
        if rng_state(env) != rng_state(twin):
            return f'{where}: the stateful environment consumed a different amount of randomness than the functional twin'
    return None


def _work(job):
    name, seed, repname, first, depth, full = job
    env = envs.fresh(name, seed)
    acts = pick_actions(env)
    n = ops = 0
    fails = []
    for rest in itertools.product(OPS if full else CORE_OPS, repeat=depth - 1):
        seq = [first] + list(rest)
        n += 1
        ops += len(seq)
        m = judge_sequence(name, seed, seq, repname, acts, fresh_envs=(n == 1))
        if m and len(fails) < 2:
            fails.append({'kind': 'seq', 'config': name, 'seed': seed, 'rep': repname, 'seq': seq,
                          'message': f'{name} seed {seed} [{repname}]: {m}', 'sig': {'config': name}, 'simplicity': len(seq)})
    return n, ops, fails


def pick_actions(env):
    acts = list(env.action_space.actions)
    want = [Action.MOVE_FORWARD, Action.TURN_LEFT, Action.PICK_N_DROP if Action.PICK_N_DROP in acts else Action.MOVE_RIGHT]
    return [a for a in want if a in acts]


def replay(case):
    env = envs.fresh(case['config'], case['seed'])
    return judge_sequence(case['config'], case['seed'], case['seq'], case['rep'], pick_actions(env), fresh_envs=True)


def run(rep, tier, seed):
    base = seed * 977 + 11
    if tier == 'quick':
        cfgs = [('synthetic', 'default', 5), ('teleport.5x5', 'compact', 5), ('keydoor.5x5', 'no-overlap', 4),
                ('dynamic_obstacles.5x5', 'default', 4), ('memory.5x5', 'compact', 4), ('four_rooms.7x7', 'no-overlap', 4),
                ('crossing.7x7', 'default', 3), ('memory_four_rooms.7x7', 'compact', 3), ('empty.4x4', 'default', 5)]
        seeds = [base, base + 1]
    else:
        cfgs = [('synthetic', 'default', 6), ('teleport.5x5', 'compact', 5), ('keydoor.5x5', 'no-overlap', 5),
                ('dynamic_obstacles.5x5', 'default', 5), ('memory.5x5', 'compact', 4), ('four_rooms.7x7', 'no-overlap', 4),
                ('crossing.7x7', 'default', 4), ('memory_four_rooms.7x7', 'compact', 4), ('keydoor.7x7', 'default', 4),
                ('synthetic', 'compact', 4), ('dynamic_obstacles.7x7', 'no-overlap', 4), ('empty.4x4', 'default', 6)]
        seeds = [base, base + 1, base + 2]
    jobs = []
    for name, repname, depth in cfgs:
        for sd in seeds:
            for first in OPS:
                jobs.append((name, sd, repname, first, depth - 1, True))   # all 10 operations to depth-1
            for first in CORE_OPS:
                jobs.append((name, sd, repname, first, depth, False))      # the 7 core operations to full depth
    # sequences shorter than `depth` are prefixes of the depth-long ones and are checked operation by operation there
    jobs.sort(key=lambda j: -j[4])
    n = ops = 0
    fails = []
    for k, o, fl in dyn.pmap_w('work', _work, jobs):
        n += k
        ops += o
        fails.extend(fl)
    fails.sort(key=lambda f: f['simplicity'])
    dyn.report_fails(rep, fails, replay)
    rep.bounds = {'operations': OPS, 'configs': [f'{c} [{r}] depth {d}' for c, r, d in cfgs], 'seeds': seeds,
                  'core_operations': CORE_OPS,
                  'note': 'all sequences of depth-1 over the 10 operations and of full depth over the 7 core operations (shorter ones are prefixes, checked op by op)'}
    rep.part('sequences', sequences=n, operations=ops)
    rep.sample({'kind': 'seq', 'config': 'synthetic', 'seed': seeds[0], 'rep': 'default', 'seq': ['obs', 'reset', 'oobs', 'obs']})
    rep.exhaustive = False
    rep.assume('three actions per configuration (a move, a turn, an object action where available); seeds are a finite set')
    return rep.finish(
        states=n,
        transitions=ops,
        validated=ops,
        evaluations=ops,
        distinct_nontrivial=n,
        rule='case = one operation sequence replayed on a stateful environment and on a functionally driven twin with the same '
        'seed; every operation is compared (state, reward, flag, observation, representations, generator bit state)',
    )


WORKERS = {'work': _work}

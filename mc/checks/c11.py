"""C11 -- stochastic dynamics obey their rules for every random outcome.

Obstacles: every layout (<=3 obstacles, <=2 cells of {Wall, Exit, Key, Telepod}) on small shapes; the set R of
final grids over ALL ChoiceRng scripts (obstacle identity tracked through id()) is compared with a
nondeterministic reference M(pi) that is agnostic of the processing order pi.
Telepods: <=4 telepods of 2 colours anywhere, agent on every cell: outcome set == other same-colour telepods.
Conformance: every layout is also run with real numpy seeds through a recording proxy and replayed.
"""
import itertools

from gym_gridverse.envs.transition_functions import transition_function_registry as TF

from .. import dyn
from .. import refmodel as R
from .. import universe as U
from ..choice import ChoiceRng, RecordingRng, explore
from ..desc import FLOOR, NONE, WALL, gdesc, mkstate, sdesc, tup
from ..pool import pmap

OTHER = [WALL, U.exit_(0), U.key(U.C1), U.telepod(U.C1)]


def obstacle_layouts(shape, max_obst, max_other):
    h, w = shape
    cells = [(y, x) for y in range(h) for x in range(w)]
    for no in range(1, max_obst + 1):
        for ob in itertools.combinations(cells, no):
            rest = [c for c in cells if c not in ob]
            for nx in range(0, max_other + 1):
                for where in itertools.combinations(rest, nx):
                    for what in itertools.product(OTHER, repeat=nx):
                        rows = [[FLOOR] * w for _ in range(h)]
                        for c in ob:
                            rows[c[0]][c[1]] = U.OBST
                        for c, d in zip(where, what):
                            rows[c[0]][c[1]] = d
                        yield tuple(tuple(r) for r in rows)


def run_obstacles(rows, rng, fn=None):
    """run the real move_obstacles in place, tracking obstacle identity; returns (finals, grid) or ('EXC',..)"""
    fn = fn or TF['move_obstacles']
    st = mkstate((rows, 0, 0, 'F', NONE))
    obst = [(p, st.grid.objects[p[0]][p[1]]) for p in R.obstacle_positions(rows)]
    ids = {id(o): i for i, (p, o) in enumerate(obst)}
    try:
        fn(st, dyn.ACT['TURN_LEFT'], rng=rng)
    except Exception as e:  # noqa: BLE001
        return ('EXC', type(e).__name__, str(e)[:200])
    finals = [None] * len(obst)
    for y, row in enumerate(st.grid.objects):
        for x, o in enumerate(row):
            i = ids.get(id(o))
            if i is not None:
                if finals[i] is not None:
                    return ('EXC', 'Duplicated', f'obstacle {i} present twice')
                finals[i] = (y, x)
    if (st.agent.position.y, st.agent.position.x, st.agent.orientation.name[0]) != (0, 0, 'F'):
        return ('EXC', 'AgentMoved', 'move_obstacles changed the agent pose')
    return (tuple(finals), gdesc(st.grid))


def judge_obstacles(rows, seeds=()):
    """returns (n_exec, n_outcomes, replays, message)"""
    impl = set()
    n = 0
    for choices, res, rng in explore(lambda rng: run_obstacles(rows, rng), max_runs=20000):
        n += 1
        if res[0] == 'EXC':
            return n, 0, 0, f'move_obstacles raised/failed {res[1]}: {res[2]} (script {choices})'
        if None in res[0]:
            return n, 0, 0, f'an obstacle object was lost (script {choices})'
        impl.add(res)
    if explore.capped:
        return n, len(impl), 0, None  # too large to decide; reported by caller as cap
    init = R.obstacle_positions(rows)
    union = set()
    some_order_contained = False
    for order in itertools.permutations(range(len(init))):
        res = R.ref_move_obstacles_order(rows, [init[i] for i in order])
        s_pi = set()
        for finals, grid in res.items():
            norm = [None] * len(init)
            for slot, i in enumerate(order):
                norm[i] = finals[slot]
            s_pi.add((tuple(norm), grid))
        union |= s_pi
        if s_pi <= impl:
            some_order_contained = True
    extra = impl - union
    if extra:
        finals, grid = sorted(extra)[0]
        return n, len(impl), 0, (f'outcome not allowed by the rules under any processing order: obstacles {init} -> '
                                 f'{list(finals)}')
    if not some_order_contained:
        return n, len(impl), 0, ('for no processing order are all rule-allowed outcomes possible '
                                 f'(implementation reaches {len(impl)} outcomes, every order allows some it never produces)')
    replays = 0
    for sd in seeds:
        rec = RecordingRng(sd)
        real = run_obstacles(rows, rec)
        rep = run_obstacles(rows, ChoiceRng(rec.script))
        replays += 1
        if real != rep:
            return n, len(impl), replays, f'INTERNAL-CONFORMANCE: ChoiceRng replay of numpy seed {sd} differs'
        if real not in impl:
            return n, len(impl), replays, f'INTERNAL-CONFORMANCE: numpy seed {sd} outcome outside the enumerated set'
    return n, len(impl), replays, None


def judge_lineage(rows, agent):
    """the obstacle rules must hold on a state reached through a history: move_obstacles has already run on the lineage,
    then a box holding an obstacle is opened; the released obstacle must be able to move like any other"""
    from gym_gridverse.envs.transition_functions import transition_with_copy
    y, x, h = agent
    st = mkstate((rows, y, x, h, NONE))
    st = transition_with_copy(TF['move_obstacles'], st, dyn.ACT['TURN_LEFT'], rng=ChoiceRng([]))
    st = transition_with_copy(dyn.chain_fn(('actuate_box', 'move_obstacles')), st, dyn.ACT['ACTUATE'], rng=ChoiceRng([]))
    base = sdesc(st)

    def outcome_grids(factory):
        out = set()
        for choices, res, _ in explore(
                lambda rng: gdesc(transition_with_copy(TF['move_obstacles'], factory(), dyn.ACT['TURN_LEFT'], rng=rng).grid), max_runs=5000):
            out.add(res)
        return out

    impl = outcome_grids(lambda: st)                # the object reached through the history (copies keep its lineage)
    fresh = outcome_grids(lambda: mkstate(base))    # a freshly built equal state
    want = set()
    init = R.obstacle_positions(base[0])
    for order in itertools.permutations(range(len(init))):
        want |= set(R.ref_move_obstacles_order(base[0], [init[i] for i in order]).values())
    if not impl <= want:
        return 'after a history (obstacles moved, then a box holding an obstacle opened) an outcome violates the rules'
    if impl != fresh:
        return ('after a history (obstacles moved, then a box holding an obstacle opened) the possible outcomes differ from '
                f'those of a freshly built equal state ({len(impl)} vs {len(fresh)} outcomes): some obstacle never moves')
    return None


def judge_teleport_lineage(rows, agent, seq):
    """the teleport rule on states that descend from a teleportation: along every action sequence the successor of the
    state OBJECT reached so far is one the reference allows for its value (an agent that ends a step on a telepod is
    sent to a partner - also when it arrived there by teleporting)"""
    from gym_gridverse.envs.transition_functions import transition_with_copy
    names = ('move_agent', 'turn_agent', 'teleport')
    fn = dyn.chain_fn(names)
    y, x, h = agent
    st = mkstate((rows, y, x, h, NONE))
    for i, a in enumerate(seq):
        cur = sdesc(st)
        want = R.ref_chain_set(names, cur, a)
        got = set()
        first = None
        for choices, res, _ in explore(lambda rng: transition_with_copy(fn, st, dyn.ACT[a], rng=rng), max_runs=64):
            got.add(sdesc(res))
            first = first if first is not None else res
        if got != want:
            return (f'step {i} ({a}) of {list(seq)} from a state reached through the earlier steps: agent may end at '
                    f'{sorted((g[1], g[2], g[3]) for g in got)}, reference {sorted((g[1], g[2], g[3]) for g in want)}')
        st = first
    return None


def teleport_lineage_cases():
    F_, T1, T2 = FLOOR, U.telepod(U.C1), U.telepod(U.C2)
    yield ((F_, T1, F_, T1),), (0, 0, 'R')
    yield ((F_, T1), (T1, F_)), (0, 0, 'R')
    yield ((F_, T1, T1, T1),), (0, 0, 'R')
    yield ((T1, F_, T2), (F_, T2, T1)), (1, 0, 'F')


def lineage_cases():
    F_, W, OB = FLOOR, WALL, U.OBST
    BX = U.box(OB)
    yield ((F_, F_, F_), (OB, F_, BX), (F_, F_, F_)), (1, 1, 'R')
    yield ((F_, BX, F_), (F_, F_, F_), (OB, F_, F_)), (1, 1, 'F')
    yield ((BX, F_), (F_, F_), (F_, OB)), (1, 0, 'F')
    yield ((F_, F_, BX, F_),), (0, 1, 'R')
    yield ((OB, F_, F_), (F_, F_, BX)), (1, 1, 'R')


def judge_shared_telepods(s, a):
    """telepods are compared by position and colour, not by object identity: one Telepod instance placed in several
    cells (a layout written with a legend) behaves like distinct equal instances"""
    fn = TF['teleport']
    want = R.ref_teleport(s, a)
    got = set()

    def run(rng):
        st = mkstate(s)
        shared = {}
        for yy, row in enumerate(st.grid.objects):
            for xx, o in enumerate(row):
                if type(o).__name__ == 'Telepod':
                    row[xx] = shared.setdefault(o.color, o)
        try:
            fn(st, dyn.ACT[a], rng=rng)
        except Exception as e:  # noqa: BLE001
            return ('EXC', type(e).__name__, str(e)[:100])
        return sdesc(st)

    for choices, res, _ in explore(run, max_runs=200):
        if res[0] == 'EXC':
            return f'teleport raised {res[1]} when one Telepod instance occupies several cells'
        got.add(res)
    if got != want:
        return (f'with one Telepod instance occupying several cells the outcomes {sorted((g[1], g[2]) for g in got)} differ from '
                f'the rule {sorted((g[1], g[2]) for g in want)}')
    return None


def judge_not_on_telepod():
    """teleportation never displaces an agent that does not stand on a telepod - whatever else it stands on (objects of
    the telepods' colour, colourless floor next to colourless telepods)"""
    n = 0
    under = [FLOOR, U.key(U.C1), U.beacon(U.C1), U.door(0, U.C1), U.exit_(U.C1), U.exit_(0), U.key(0)]
    for tcol in (U.C1, 0):
        for k in (1, 2, 3):
            for obj in under:
                rows = [[FLOOR] * 5]
                rows[0][0] = obj
                for i in range(k):
                    rows[0][2 + i] = U.telepod(tcol)
                rows = tuple(tuple(r) for r in rows)
                s = (rows, 0, 0, 'R', NONE)
                for a in ('TURN_LEFT', 'ACTUATE'):
                    n += 1
                    outs, _ = dyn.outcomes(TF['teleport'], s, a)
                    for choices, res in outs:
                        if res != s:
                            what = f'raised {res[1]}' if dyn.is_exc(res) else f'moved the agent to {(res[1], res[2])}'
                            return n, (f'teleport {what} although the agent stands on {obj[0]}(colour {obj[2]}), not on a telepod '
                                       f'({k} telepods of colour {tcol} elsewhere)'), s
    return n, None, None


def telepod_layouts(shape, max_t):
    h, w = shape
    cells = [(y, x) for y in range(h) for x in range(w)]
    tp = [U.telepod(U.C1), U.telepod(U.C2)]
    for k in range(1, max_t + 1):
        for where in itertools.combinations(cells, k):
            for what in itertools.product(tp, repeat=k):
                rows = [[FLOOR] * w for _ in range(h)]
                for c, d in zip(where, what):
                    rows[c[0]][c[1]] = d
                yield tuple(tuple(r) for r in rows)


def judge_teleport(s, a, seeds=()):
    fn = TF['teleport']
    outs, capped = dyn.outcomes(fn, s, a)
    want = R.ref_teleport(s, a)
    got = set()
    for choices, res in outs:
        if dyn.is_exc(res):
            return len(outs), 0, f'teleport raised {res[1]}: {res[2]} (script {choices})'
        got.add(res)
    if got != want:
        return len(outs), 0, (f'teleport outcomes {sorted((g[1], g[2]) for g in got)} != reference '
                              f'{sorted((g[1], g[2]) for g in want)} (agent at {(s[1], s[2])})')
    replays = 0
    for sd in seeds:
        rec = RecordingRng(sd)
        st = mkstate(s)
        fn(st, dyn.ACT[a], rng=rec)
        real = sdesc(st)
        res2, _ = dyn.execute(fn, s, a, rec.script)
        replays += 1
        if real != res2 or real not in got:
            return len(outs), replays, f'INTERNAL-CONFORMANCE: numpy seed {sd} differs from ChoiceRng replay'
    return len(outs), replays, None


def _work(job):
    kind, shape, params, i, parts, seeds = job
    stats = {'layouts': 0, 'exec': 0, 'outcomes': 0, 'replays': 0, 'nontrivial': 0, 'capped': 0}
    fails, samples = [], []
    if kind == 'obst':
        for j, rows in enumerate(obstacle_layouts(shape, *params)):
            if j % parts != i:
                continue
            n, nout, rp, msg = judge_obstacles(rows, seeds)
            stats['layouts'] += 1
            stats['exec'] += n
            stats['outcomes'] += nout
            stats['replays'] += rp
            if nout > 1:
                stats['nontrivial'] += 1
                if len(samples) < 1:
                    samples.append({'kind': 'obst', 'rows': rows, 'outcomes': nout})
            if msg and len(fails) < 4:
                fails.append({'kind': 'obst', 'rows': rows, 'message': msg, 's': (rows, 0, 0, 'F', NONE),
                              'sig': {'fn': 'move_obstacles'}})
    else:
        for j, rows in enumerate(telepod_layouts(shape, params)):
            if j % parts != i:
                continue
            for y, x, h in U.poses(shape):
                if h != 'F' and (y, x) != (0, 0):
                    continue  # heading is irrelevant to teleport: all four only at one cell
                for a in ('MOVE_FORWARD', 'ACTUATE'):
                    s = (rows, y, x, h, NONE)
                    n, rp, msg = judge_teleport(s, a, seeds if a == 'ACTUATE' else ())
                    stats['layouts'] += 1
                    stats['exec'] += n
                    stats['replays'] += rp
                    if rows[y][x][0] == 'Telepod':
                        stats['nontrivial'] += 1
                        if len(samples) < 1 and n > 1:
                            samples.append({'kind': 'tele', 's': s, 'a': a, 'outcomes': n})
                    if not msg and a == 'ACTUATE' and rows[y][x][0] == 'Telepod':
                        msg = judge_shared_telepods(s, a)
                        if msg:
                            fails.append({'kind': 'tele_shared', 's': s, 'a': a, 'message': msg, 'sig': {'fn': 'teleport', 'shared': True}})
                            msg = None
                    if msg and len(fails) < 4:
                        partner = len(R.ref_teleport(s, a)) > 1 or (rows[y][x][0] == 'Telepod' and R.ref_teleport(s, a) != {s})
                        fails.append({'kind': 'tele', 's': s, 'a': a, 'message': msg,
                                      'sig': {'fn': 'teleport', 'paired': bool(partner)}})
    return stats, fails, samples


def replay(case):
    if case['kind'] == 'obst':
        return judge_obstacles(tup(case['rows']))[3]
    if case['kind'] == 'tele':
        return judge_teleport(tup(case['s']), case['a'])[2]
    if case['kind'] == 'tele_shared':
        return judge_shared_telepods(tup(case['s']), case['a'])
    if case['kind'] == 'not_on_telepod':
        return judge_not_on_telepod()[1]
    if case['kind'] == 'tele_lineage':
        return judge_teleport_lineage(tup(case['rows']), tuple(case['agent']), list(case['seq']))
    if case['kind'] == 'lineage':
        return judge_lineage(tup(case['rows']), tuple(case['agent']))
    raise ValueError(case['kind'])


def run(rep, tier, seed):
    seeds = (seed * 7919 + 11, seed * 7919 + 12)
    jobs = []
    if tier == 'quick':
        obst = [(sh, (3, 2)) for sh in U.SHAPES_SMALL] + [((3, 4), (2, 1)), ((4, 3), (2, 1))]
        tele = [(sh, 4) for sh in U.SHAPES_SMALL]
    else:
        obst = [(sh, (3, 2)) for sh in U.SHAPES_SMALL] + [((3, 4), (3, 1)), ((4, 3), (3, 1)), ((4, 4), (3, 1)),
                                                           ((3, 4), (2, 2)), ((4, 3), (2, 2)), ((3, 3), (4, 1))]
        tele = [(sh, 4) for sh in U.SHAPES_SMALL] + [((3, 4), 4), ((4, 3), 4), ((4, 4), 3)]
    rep.bounds = {
        'obstacle_layouts': [{'shape': list(sh), 'max_obstacles': p[0], 'max_other_cells': p[1]} for sh, p in obst],
        'other_cell_alphabet': ['Wall', 'Exit', 'Key', 'Telepod'],
        'telepod_layouts': [{'shape': list(sh), 'max_telepods': p, 'colours': 2} for sh, p in tele],
        'real_seed_conformance': list(seeds),
    }
    for sh, p in obst:
        parts = 64 if sh[0] * sh[1] >= 9 else 4 if sh[0] * sh[1] >= 6 else 1
        for i in range(parts):
            jobs.append(('obst', sh, p, i, parts, seeds))
    for sh, p in tele:
        parts = 32 if sh[0] * sh[1] >= 9 else 2 if sh[0] * sh[1] >= 6 else 1
        for i in range(parts):
            jobs.append(('tele', sh, p, i, parts, seeds))
    results = dyn.pmap_w('work', _work, jobs)
    tot = {'layouts': 0, 'exec': 0, 'outcomes': 0, 'replays': 0, 'nontrivial': 0, 'capped': 0}
    fails = []
    for job, (stats, fl, samples) in zip(jobs, results):
        for k in tot:
            tot[k] += stats[k]
        rep.part(job[0], **stats)
        for smp in samples:
            rep.sample(smp, limit=6)
        fails.extend(fl)
    nt, mt, st_ = judge_not_on_telepod()
    if mt:
        fails.append({'kind': 'not_on_telepod', 'message': mt, 's': st_, 'sig': {'fn': 'teleport', 'part': 'not_on_telepod'}})
    rep.part('not_on_telepod', cases=nt)
    ln = 0
    for rows, agent in lineage_cases():
        ln += 1
        m = judge_lineage(rows, agent)
        if m:
            fails.append({'kind': 'lineage', 'rows': rows, 'agent': list(agent), 'message': m, 's': (rows,) + tuple(agent) + (NONE,),
                          'sig': {'fn': 'move_obstacles', 'part': 'lineage'}})
    # telepods of a user-defined subclass are telepods: partners are the OTHER telepods of the same colour, whatever their class
    from .. import reps as _reps  # noqa: F401 -- registers VerifSubTelepod
    T1, T2, S1, S2, F_ = U.telepod(U.C1), U.telepod(U.C2), ('VerifSubTelepod', 0, U.C1, None), ('VerifSubTelepod', 0, U.C2, None), FLOOR
    sub_n = 0
    for rows in (((T1, S1),), ((S1, T1, F_),), ((T1, T1, S1),), ((S1, S1),), ((S1, T2, T1),), ((S1, S2), (T2, T1)), ((F_, S1), (T1, S1)),
                 ((S1, F_, S2), (T2, S2, T1))):
        for y in range(len(rows)):
            for x in range(len(rows[0])):
                s = (rows, y, x, 'F', NONE)
                k, _, m = judge_teleport(s, 'TURN_LEFT')
                sub_n += 1
                if m:
                    fails.append({'kind': 'tele', 's': s, 'a': 'TURN_LEFT', 'message': 'with telepods of a user-defined subclass: ' + m,
                                  'sig': {'fn': 'teleport', 'part': 'subclass'}})
    rep.part('telepod_subclass', cases=sub_n)
    import itertools as _it
    for rows, agent in teleport_lineage_cases():
        for seq in _it.product(('MOVE_FORWARD', 'TURN_LEFT', 'MOVE_BACKWARD', 'MOVE_RIGHT'), repeat=3):
            ln += 1
            m = judge_teleport_lineage(rows, agent, seq)
            if m:
                fails.append({'kind': 'tele_lineage', 'rows': rows, 'agent': list(agent), 'seq': list(seq), 'message': m,
                              's': (rows,) + tuple(agent) + (NONE,), 'sig': {'fn': 'teleport', 'part': 'lineage'}})
                break
    rep.part('lineage', cases=ln, rule='obstacle outcome sets on states reached through move_obstacles -> open a box holding an obstacle')
    for f in fails:
        if 'INTERNAL-CONFORMANCE' in f['message']:
            raise SystemExit('INTERNAL: ' + f['message'])
    dyn.report_fails(rep, fails, replay)
    rep.assume('the obstacle oracle assumes no particular processing order: it demands that for SOME order every '
               'rule-allowed outcome is produced, and that every produced outcome is rule-allowed under SOME order')
    return rep.finish(
        states=tot['layouts'],
        transitions=tot['exec'],
        validated=tot['exec'] + tot['replays'],
        evaluations=tot['exec'],
        distinct_nontrivial=tot['nontrivial'],
        rule='case = one obstacle layout (all random outcomes enumerated, non-trivial if more than one outcome) or one '
        '(telepod layout, agent cell, action) (non-trivial if the agent stands on a telepod); '
        'traces_validated adds the numpy real-seed conformance replays',
        extra={'distinct_outcomes_observed': tot['outcomes'], 'numpy_conformance_replays': tot['replays']},
    )


WORKERS = {'work': _work}

"""C08 -- agent kinematics: moves and turns do exactly what the action says.

(a) E1 universe x all poses x all actions x {move_agent, turn_agent, every other built-in alone, shipped
    chains, full chain} x every random outcome: resulting pose compared with the reference kinematics.
(b) E3: every reachable state of the shipped configurations: agent inside the grid, never on a blocking cell.
"""
from .. import dyn, reach, configs
from .. import refmodel as R
from .. import universe as U
from ..choice import ChoiceRng
from ..desc import mkstate, sdesc, show

CHAINS = [(n,) for n in dyn.SINGLES] + dyn.SHIPPED_CHAINS + [dyn.CHAIN_FULL]
CHAINS_HI = [('move_agent',), dyn.CHAIN_FULL]


def pose(s):
    return (s[1], s[2], s[3])


def ref_poses(names, s, a):
    names = tuple(n for n in names if n != 'move_obstacles')  # obstacles never block nor sit on telepods
    if not names:
        return {pose(s)}
    return {pose(r) for r in R.ref_chain_set(names, s, a)}


_nested = {}


def nested_fn(names):
    """the same chain assembled the way a configuration file can: through the registry factory, with its head wrapped in a
    chain of its own (nesting is transparent).  Built once per process and used for every case."""
    if names not in _nested:
        from gym_gridverse.envs import transition_functions as TRF
        fns = [TRF.factory(n) for n in names]
        inner = TRF.factory('chain', transition_functions=fns[:2])
        _nested[names] = TRF.factory('chain', transition_functions=[inner] + fns[2:])
    return _nested[names]


def judge(names, s, a):
    """returns (n_executions, nontrivial, message or None, signature)"""
    fn = dyn.chain_fn(names)
    outs, capped = dyn.outcomes(fn, s, a, via_copy=len(names) > 1)  # chains through transition_with_copy, singles in place
    want = ref_poses(names, s, a)
    sig = {'action_kind': 'move' if a in R.MOVES else 'turn' if a.startswith('TURN') else 'other'}
    if a in R.MOVES:
        sig['target'] = 'inside' if R.inside(s[0], _target(s, a)) else 'outside'
    seen = set()
    for choices, res in outs:
        if dyn.is_exc(res):
            # an exception on a move/turn action (or inside teleport) leaves the pose undefined: kinematics broken.
            # exceptions raised by ACTUATE / PICK_N_DROP handling are totality failures decided by C01, not here.
            if dyn.blamed(names, ('move_agent', 'turn_agent', 'teleport'), s, a):
                return len(outs), True, f'{"+".join(names)} on {a} raised {res[1]}: {res[2]} (script {choices})', sig
            return len(outs), False, None, sig
        p = pose(res)
        seen.add(p)
        if p not in want:
            return len(outs), True, (
                f'{"+".join(names)} on {a}: pose {pose(s)} -> {p}, reference allows {sorted(want)} (script {choices})'
            ), sig
    if len(names) > 1 and outs and not dyn.is_exc(outs[0][1]):
        # nested / factory-built form of the chain: same successor for the same random script, at every call
        for _ in range(2):
            res_n, _rng = dyn.execute(nested_fn(names), s, a, outs[0][0])
            if res_n != outs[0][1]:
                got = f'raised {res_n[1]}' if dyn.is_exc(res_n) else f'pose {pose(s)} -> {pose(res_n)}'
                return len(outs) + 2, True, (f'{"+".join(names)} on {a}: the factory-built chain with a nested chain {got}, the flat '
                                             f'chain gives pose {pose(outs[0][1])} (script {outs[0][0]})'), dict(sig, nested=True)
    if not capped and 'teleport' in names and seen != want:
        return len(outs), True, (
            f'{"+".join(names)} on {a}: reachable poses {sorted(seen)} != reference {sorted(want)}'), sig
    nontrivial = False
    if a in R.MOVES:
        t = _target(s, a)
        nontrivial = (not R.inside(s[0], t)) or s[0][t[0]][t[1]][0] != 'Floor'
    elif a.startswith('TURN'):
        nontrivial = True
    return len(outs), nontrivial, None, sig


def turn_laws(s):
    """left then right, and four equal turns, restore the heading and never displace (real turn_agent)"""
    fn = dyn.chain_fn(('turn_agent',))
    for seq in (['TURN_LEFT', 'TURN_RIGHT'], ['TURN_RIGHT', 'TURN_LEFT'], ['TURN_LEFT'] * 4, ['TURN_RIGHT'] * 4):
        st = mkstate(s)
        for a in seq:
            fn(st, dyn.ACT[a])
            if (st.agent.position.y, st.agent.position.x) != (s[1], s[2]):
                return f'turn displaced the agent in {seq}'
        if sdesc(st) != s:
            return f'turn sequence {seq} does not restore the state'
    for a, table in (('TURN_LEFT', R.TURN_LEFT), ('TURN_RIGHT', R.TURN_RIGHT)):
        st = mkstate(s)
        fn(st, dyn.ACT[a])
        if sdesc(st)[3] != table[s[3]]:
            return f'{a} from {s[3]} gives {sdesc(st)[3]}, reference {table[s[3]]}'
    return None


_worker = dyn.make_worker(judge, state_law=turn_laws, uses_held=lambda names: bool({'actuate_door', 'pickndrop'} & set(names)))


def _target(s, a):
    v = R.move_vec(s[3], a)
    return (s[1] + v[0], s[2] + v[1])


def replay(case):
    if case['kind'] == 'job':
        return dyn.replay_job(case, _worker)
    from ..desc import tup

    if case['kind'] == 'state_law':
        return turn_laws(tup(case['s']))
    if case['kind'] == 'step':
        return judge(tuple(case['names']), tup(case['s']), case['a'])[2]
    if case['kind'] == 'reach':
        return reach.replay_trace(case, make_hooks)
    if case['kind'] == 'partial_actions':
        return judge_partial_actions(case['config'], tuple(case['acts']), case['seed'])[1]
    if case['kind'] == 'corridor':
        return judge_corridor(tuple(case['shape']), case['via_copy'])[1]
    if case['kind'] == 'stateful':
        return judge_stateful(case['config'], case['seed'])[1]
    raise ValueError(case['kind'])


def make_hooks(env, name):
    def on_state(k, st, g):
        rows, y, x = k[0], k[1], k[2]
        if not R.inside(rows, (y, x)):
            return f'agent outside the grid at {(y, x)}'
        if R.blocks_move(rows[y][x]):
            return f'agent on a movement-blocking cell {rows[y][x][0]} at {(y, x)}'
        return None

    data = configs.load(dict(configs.all_configs())[name])
    names = tuple(t['name'] for t in data['transition_functions'])

    def on_edge(k, st, a, choices, k2, st2, reward, done, g):
        # every explored edge obeys the reference kinematics (states in the search keep their object lineage, so
        # anything cached on a grid/agent object along a history is exercised here)
        want = ref_poses(names, k, a.name)
        if pose(k2) not in want:
            return f'{a.name}: pose {pose(k)} -> {pose(k2)}, reference kinematics allows {sorted(want)}'
        return None

    return on_state, on_edge


def judge_corridor(shape, via_copy):
    """walk an all-floor corridor from end to end and back (coordinates pass 127/128 and 255/256), every step compared with
    the reference kinematics; the state object (or its copies) is carried along, as an episode does"""
    from gym_gridverse.envs.transition_functions import transition_with_copy

    H, W = shape
    rows = tuple(tuple(U.FLOOR for _ in range(W)) for _ in range(H))
    heading = 'B' if H > W else 'R'
    st = mkstate((rows, 0, 0, heading, U.NONE))
    fn = dyn.chain_fn(dyn.CHAIN_NAV)
    n = 0
    plan = ['MOVE_FORWARD'] * (max(H, W) + 1) + ['TURN_LEFT', 'TURN_LEFT'] + ['MOVE_FORWARD'] * (max(H, W) + 1) + ['MOVE_BACKWARD'] * 3
    for a in plan:
        k = sdesc(st)
        if via_copy:
            st = transition_with_copy(fn, st, dyn.ACT[a])
        else:
            fn(st, dyn.ACT[a])
        n += 1
        want = R.ref_turn_agent(R.ref_move_agent(k, a), a)
        if pose(sdesc(st)) != pose(want):
            return n, f'corridor {H}x{W}: {a} from {pose(k)} gives {pose(sdesc(st))}, reference {pose(want)}'
    return n, None


def judge_partial_actions(name, acts, seed, depth=3):
    """the same configuration with a reduced action list (e.g. forward + turns): the remaining actions still move / turn"""
    import copy
    import itertools

    from gym_gridverse.action import Action

    from .. import envs

    data = copy.deepcopy(envs.data_of(name))
    data['action_space'] = list(acts)
    names = tuple(t['name'] for t in data['transition_functions'])
    try:
        env = configs.build(data)
    except Exception as e:  # noqa: BLE001
        return 1, f'{name} with action_space {list(acts)}: building the configuration raised {type(e).__name__}: {e}'
    n = 0
    # commanded through the inner interface (Action members) and through the gym adapter (the INDEX of the action in the
    # configured list): either way the agent moves / turns as the commanded action says
    import gym_gridverse.gym as GG
    from gym_gridverse.outer_env import OuterEnv
    from gym_gridverse.representations.observation_representations import make_observation_representation
    ge = GG.GymEnvironment(OuterEnv(env, observation_representation=make_observation_representation('default', env.observation_space)))
    for via in ('inner', 'gym'):
        for seq in itertools.product(acts, repeat=depth):
            env.set_seed(seed)
            env.reset()
            k = sdesc(env.state)
            for a in seq:
                env._rng = ChoiceRng([])
                try:
                    if via == 'inner':
                        env.step(Action[a])
                    else:
                        ge.step(list(acts).index(a))
                except Exception as e:  # noqa: BLE001
                    return n, f'{name} with action_space {list(acts)}: {a} commanded through the {via} interface raised {type(e).__name__}: {e}'
                k2 = sdesc(env.state)
                n += 1
                want = ref_poses(names, k, a)
                if pose(k2) not in want:
                    return n, (f'{name} with action_space {list(acts)}: {a} (through the {via} interface'
                               f'{", index " + str(list(acts).index(a)) if via == "gym" else ""}) after {list(seq)}: pose {pose(k)} -> '
                               f'{pose(k2)}, reference kinematics allows {sorted(want)}')
                k = k2
    return n, None


def judge_stateful(name, seed):
    """drive the STATEFUL interface (reset/step) of a shipped configuration along shortest paths to every reachable cell
    and three steps beyond (episodes are not cut at termination: the dynamics keep obeying the kinematics)"""
    from gym_gridverse.action import Action

    from .. import envs
    from .c02 import directed_sequences

    data = configs.load(dict(configs.all_configs())[name])
    names = tuple(t['name'] for t in data['transition_functions'])
    n = 0
    for seq in directed_sequences(name, seed):
        env = envs.slot(name, 'c08', seed)
        env.reset()
        k = sdesc(env.state)
        tail = [a for a in ('MOVE_BACKWARD', 'TURN_LEFT', 'MOVE_FORWARD') if Action[a] in env.action_space.actions]
        for a in list(seq) + tail:
            env._rng = ChoiceRng([])
            env.step(Action[a])
            k2 = sdesc(env.state)
            n += 1
            want = ref_poses(names, k, a)
            if pose(k2) not in want:
                return n, (f'{name} seed {seed}: stateful step {a} after {n - 1} steps: pose {pose(k)} -> {pose(k2)}, reference '
                           f'kinematics allows {sorted(want)}')
            k = k2
    return n, None


def run(rep, tier, seed):
    plan = dyn.standard_plan(tier, CHAINS, CHAINS_HI, sigma_hi='kin5')
    rep.bounds['chains'] = ['+'.join(c) for c in CHAINS]
    tot = dyn.run_universe(rep, plan, _worker, replay)
    if tier == 'quick':
        names, init_limit, max_states = configs.SMALL + ['crossing.7x7', 'four_rooms.7x7', 'teleport.7x7'], 400, 20000
    else:
        names, init_limit, max_states = configs.SMALL + ['crossing.7x7', 'four_rooms.7x7', 'teleport.7x7', 'memory_four_rooms.7x7'], 800, 30000
    rs, rt = dyn.run_reach(rep, names, init_limit, max_states, make_hooks, replay, 'kinematics_on_reachable_edges', lineages=4)
    sn = 0
    sjobs = [(name, sd) for name in (configs.SMALL if tier == 'quick' else configs.SMALL + configs.MEDIUM)
             for sd in (seed * 17 + 1, seed * 17 + 2)]
    from ..pool import pmap
    for (name, sd), (k, m) in zip(sjobs, pmap(lambda j: judge_stateful(*j), sjobs)):
        sn += k
        if m and judge_stateful(name, sd)[1]:
            case = {'kind': 'stateful', 'config': name, 'seed': sd, 'sig': {'part': 'stateful', 'config': name}}
            rep.violation(case, m)
        elif m:
            raise SystemExit(f'INTERNAL: violation did not reproduce on re-execution: {m}')
    pn = 0
    for name in ('empty.4x4', 'keydoor.5x5', 'teleport.5x5'):
        for acts in (('MOVE_FORWARD', 'TURN_LEFT', 'TURN_RIGHT'), ('MOVE_FORWARD', 'MOVE_BACKWARD', 'MOVE_LEFT', 'MOVE_RIGHT', 'TURN_LEFT'),
                     ('MOVE_LEFT', 'TURN_RIGHT'), ('TURN_RIGHT', 'MOVE_BACKWARD', 'TURN_LEFT', 'MOVE_FORWARD'),
                     ('TURN_LEFT', 'TURN_RIGHT', 'MOVE_RIGHT', 'MOVE_LEFT', 'MOVE_BACKWARD', 'MOVE_FORWARD')):
            k, m = judge_partial_actions(name, acts, seed * 17 + 1)
            pn += k
            if m:
                rep.violation({'kind': 'partial_actions', 'config': name, 'acts': list(acts), 'seed': seed * 17 + 1,
                               'sig': {'part': 'partial_action_space'}}, m)
    rep.part('partial_action_spaces', steps=pn)
    cn = 0
    for shape in ((1, 131), (131, 1), (1, 260), (260, 2)):
        for via_copy in (False, True):
            k, m = judge_corridor(shape, via_copy)
            cn += k
            if m:
                rep.violation({'kind': 'corridor', 'shape': list(shape), 'via_copy': via_copy, 'sig': {'part': 'corridor'}}, m)
    rep.part('long_corridors', steps=cn, shapes=['1x131', '131x1', '1x260', '260x2'])
    rep.part('stateful_paths', steps=sn)
    rep.assume('dynamics compositions limited to the 7 built-in transition functions alone, the 4 shipped chains and '
               'the full 7-chain in the shipped order')
    return rep.finish(
        states=tot['states'] + rs,
        transitions=tot['exec'] + rt + sn,
        validated=tot['exec'] + rt + sn,
        evaluations=tot['cases'] + rt,
        distinct_nontrivial=tot['nontrivial'],
        rule='universe case = (grid with <=k non-floor cells, pose, held item, function/chain, action), each enumerated '
        'once; non-trivial = a move whose target cell is outside the grid or not Floor, or a turn; reachable part '
        'counts every explored edge of the shipped configurations',
    )

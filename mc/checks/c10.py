"""C10 -- doors, keys and boxes respond only to a faced ACTUATE, and only as documented.

(a) E1 universe (every door status x colour, boxes with nested content, held items incl. keys of both colours
    and non-key objects) x poses x all actions x functions/chains x outcomes: every door/box cell compared with
    the reference actuation table.
(b) E3 over the key-door configurations: every door status change on every reachable edge is a legitimate
    unlock; doors never close; the agent is beyond the dividing wall only if the door is open.
"""
from .. import dyn, reach
from .. import refmodel as R
from .. import universe as U
from ..desc import mkstate, tup

CHAINS = [(n,) for n in dyn.SINGLES] + dyn.SHIPPED_CHAINS + [dyn.CHAIN_FULL]
CHAINS_HI = [('actuate_door',), ('actuate_box',), dyn.CHAIN_KEYDOOR, dyn.CHAIN_FULL]


def expected_cell(names, s, a, p):
    """reference content of a door/box cell p after the step"""
    b = s[0][p[0]][p[1]]
    faced = a == 'ACTUATE' and p == R.front(s[1], s[2], s[3])
    if b[0] == 'Door':
        if faced and 'actuate_door' in names:
            held = s[4]
            if b[1] == 1 or (b[1] == 2 and held[0] == 'Key' and held[2] == b[2]):
                return ('Door', 0, b[2], None)
        return b
    if b[0] == 'Box':
        if faced and 'actuate_box' in names:
            return b[3]
        return b
    return None


def judge(names, s, a):
    fn = dyn.chain_fn(names)
    outs, capped = dyn.outcomes(fn, s, a, via_copy=len(names) > 1)  # chains through transition_with_copy, singles in place
    front = R.front(s[1], s[2], s[3])
    sig = {'action': 'ACTUATE' if a == 'ACTUATE' else 'other', 'front': dyn.front_class(s)}
    special = [(y, x) for y, row in enumerate(s[0]) for x, o in enumerate(row) if o[0] in ('Door', 'Box')]
    for choices, res in outs:
        if dyn.is_exc(res):
            if dyn.blamed(names, ('actuate_door', 'actuate_box'), s, a):
                return len(outs), True, f'{"+".join(names)} on {a} raised {res[1]}: {res[2]}', sig
            continue
        for p in special:
            want = expected_cell(names, s, a, p)
            got = res[0][p[0]][p[1]]
            if got != want:
                return len(outs), True, (
                    f'{"+".join(names)} on {a}: cell {p} {s[0][p[0]][p[1]]} became {got}, reference {want} '
                    f'(agent {(s[1], s[2], s[3])}, held {s[4]})'), sig
        for y, row in enumerate(res[0]):
            for x, c in enumerate(row):
                if c[0] in ('Door', 'Box') and s[0][y][x][0] not in ('Door', 'Box'):
                    dropped = a == 'PICK_N_DROP' and (y, x) == front and s[4] == c
                    if not dropped:
                        return len(outs), True, f'{"+".join(names)} on {a}: a {c[0]} appeared at {(y, x)}', sig
        if a == 'ACTUATE' and res[4] != s[4]:
            return len(outs), True, f'{"+".join(names)} on ACTUATE: held item {s[4]} became {res[4]} (keys are not consumed)', sig
    nontrivial = bool(special) and (a == 'ACTUATE' or R.inside(s[0], front) and front in special)
    return len(outs), nontrivial, None, sig


_worker = dyn.make_worker(judge, uses_held=lambda names: bool({'pickndrop', 'actuate_door'} & set(names)))


from gym_gridverse.grid_object import Key as _Key


class VerifBrassKey(_Key):
    """a user-defined key type (module-level so that the library's pickle-based copy works; subclassing registers it
    like any other grid object, at the end of the registry)"""


def subclass_key():
    return VerifBrassKey


def judge_subclass_key():
    """a locked door opens iff the agent holds a key of the door's colour - an instance of a Key subclass is a key"""
    from gym_gridverse.envs.transition_functions import transition_function_registry as TF, transition_with_copy
    from gym_gridverse.grid_object import Color, Door

    K = subclass_key()
    n = 0
    for dc in (Color.RED, Color.YELLOW, Color.NONE):
        for kc in (Color.RED, Color.YELLOW, Color.NONE):
            for via_copy in (False, True):
                n += 1
                st = mkstate((((U.FLOOR, ('Door', 2, dc.value, None)),), 0, 0, 'R', dyn.U.NONE))
                st.agent.grid_object = K(kc)
                try:
                    if via_copy:
                        st = transition_with_copy(TF['actuate_door'], st, dyn.ACT['ACTUATE'])
                    else:
                        TF['actuate_door'](st, dyn.ACT['ACTUATE'])
                except Exception as e:  # noqa: BLE001
                    return n, f'actuate_door raised {type(e).__name__} while the agent holds an instance of a Key subclass: {e}'
                opened = st.grid[0, 1].state is Door.Status.OPEN
                if opened != (dc == kc):
                    return n, (f'locked {dc.name} door, agent holds a {kc.name} key (instance of a Key subclass): door '
                               f'{"opened" if opened else "stayed locked"}')
    return n, None


def judge_stateful_actuate(s):
    """the stateful interface (env.step) must change doors / boxes exactly like the functional one"""
    from .c01 import make_env

    env, _ = make_env(R.shape(s[0]), dyn.CHAIN_FULL)
    env._rng = dyn.ChoiceRng([])
    env._state = mkstate(s)
    env._observation = None
    try:
        env.step(dyn.ACT['ACTUATE'])
    except Exception as e:  # noqa: BLE001
        return f'env.step(ACTUATE) raised {type(e).__name__}: {e}'
    from ..desc import sdesc
    got = sdesc(env.state)
    want = R.ref_actuate_box(R.ref_actuate_door(s, 'ACTUATE'), 'ACTUATE')
    if got[0] != want[0]:
        p = R.front(s[1], s[2], s[3])
        return (f'through env.step(ACTUATE) the faced cell {p} holds {got[0][p[0]][p[1]]} afterwards, reference {want[0][p[0]][p[1]]} '
                f'(functional_step is judged elsewhere)')
    return None


def judge_observed(s):
    """looking at a state (every observation function) leaves its doors and boxes exactly as they are: only ACTUATE on the
    faced cell changes them; afterwards ACTUATE still does what the reference says"""
    from .. import obs as O
    from ..desc import sdesc

    st = mkstate(s)
    for name in O.ALL_FUNCS:
        for area in (((-2, 0), (-1, 1)), ((-1, 1), (-1, 1))):
            if not O.applicable(name, area):
                continue
            O.observe(name, area, st)
            if sdesc(st) != s:
                return f'computing the {name} observation (area {area}) changed the doors / boxes of the state: {show_rows(sdesc(st)[0])}'
    fn = dyn.chain_fn(('actuate_door', 'actuate_box'))
    fn(st, dyn.ACT['ACTUATE'])
    want = R.ref_actuate_box(R.ref_actuate_door(s, 'ACTUATE'), 'ACTUATE')
    if sdesc(st)[0] != want[0]:
        return 'after the state was observed, ACTUATE changes the grid differently from the reference'
    return None


def show_rows(rows):
    from ..desc import show
    return show((rows, 0, 0, 'F', U.NONE))


def judge_keydoor_resets(shape, script):
    """an episode opens the door in place (what actuate_door does); the NEXT reset again delivers a LOCKED door, and shares
    neither the door nor the key object with the earlier initial state"""
    from gym_gridverse.grid_object import Door
    from .. import resets as RSX

    first = RSX.call('keydoor', {'shape': shape}, dyn.ChoiceRng(script))
    if isinstance(first, tuple):
        return None
    doors = [o for row in first.grid.objects for o in row if isinstance(o, Door)]
    keys = [o for row in first.grid.objects for o in row if type(o).__name__ == 'Key']
    for d in doors:
        d.state = Door.Status.OPEN
    second = RSX.call('keydoor', {'shape': shape}, dyn.ChoiceRng(script))
    if isinstance(second, tuple):
        return f'the second keydoor reset raised {second[1]}'
    doors2 = [o for row in second.grid.objects for o in row if isinstance(o, Door)]
    keys2 = [o for row in second.grid.objects for o in row if type(o).__name__ == 'Key']
    if any(d.state is not Door.Status.LOCKED for d in doors2):
        return (f'keydoor{shape}: after the door of one episode was opened, the next reset delivers a door that is '
                f'{[d.state.name for d in doors2]} (no key was used in this episode)')
    if {id(o) for o in doors + keys} & {id(o) for o in doors2 + keys2}:
        return f'keydoor{shape}: two initial states share their door / key object (opening one opens the other)'
    return None


def judge_repose(s):
    """an agent re-posed through its public `transform` attribute (after it already acted once) actuates what it faces NOW"""
    from gym_gridverse.envs.transition_functions import transition_function_registry as TF
    from gym_gridverse.geometry import Position, Transform
    from ..desc import ORI, sdesc

    fn = dyn.chain_fn(('actuate_door', 'actuate_box'))
    H, W = R.shape(s[0])
    for y2, x2, h2 in ((yy, xx, hh) for yy in range(H) for xx in range(W) for hh in 'FRBL'):
        for how in ('attribute', 'replace'):
            st = mkstate(s)
            fn(st, dyn.ACT['ACTUATE'])
            TF['pickndrop'](st, dyn.ACT['TURN_LEFT'])
            base = sdesc(st)
            if how == 'attribute':
                st.agent.transform.position = Position(y2, x2)
                st.agent.transform.orientation = ORI[h2]
            else:
                st.agent.transform = Transform(Position(y2, x2), ORI[h2])
            s2 = (base[0], y2, x2, h2, base[4])
            if sdesc(st) != s2:
                continue
            fn(st, dyn.ACT['ACTUATE'])
            want = R.ref_actuate_box(R.ref_actuate_door(s2, 'ACTUATE'), 'ACTUATE')
            if sdesc(st)[0] != want[0]:
                return (f'after acting once at {(s[1], s[2], s[3])} and being re-posed to {(y2, x2, h2)} through agent.transform ({how}), '
                        f'ACTUATE changed the grid differently from the reference for the new pose')
    return None


def make_hooks(env, name):
    def door_of(rows):
        for y, r in enumerate(rows):
            for x, o in enumerate(r):
                if o[0] == 'Door':
                    return (y, x), o
        return None, None

    def on_edge(k, st, a, choices, k2, st2, reward, done, g):
        p, d = door_of(k[0])
        p2, d2 = door_of(k2[0])
        if p is None or p2 != p:
            return f'the door moved or vanished ({p} -> {p2})'
        if d2[2] != d[2]:
            return 'the door changed colour'
        if d[1] != d2[1]:
            legit = (
                a.name == 'ACTUATE'
                and R.front(k[1], k[2], k[3]) == p
                and d2[1] == 0
                and (d[1] == 1 or (d[1] == 2 and k[4][0] == 'Key' and k[4][2] == d[2]))
            )
            if not legit:
                return (f'door status {d[1]} -> {d2[1]} on {a.name} with agent at {(k[1], k[2], k[3])} holding {k[4][0]}'
                        f' (door at {p}): not a faced ACTUATE with a matching key')
        return None

    def on_state(k, st, g):
        p, d = door_of(k[0])
        if p is None:
            return 'no door'
        if k[2] > p[1] and d[1] != 0:
            return f'agent at x={k[2]} is beyond the dividing wall (x={p[1]}) while the door is not open'
        if k[2] == p[1] and (k[1], k[2]) == p and d[1] != 0:
            return 'agent stands in a door that is not open'
        return None

    return on_state, on_edge


def replay(case):
    if case['kind'] == 'observed':
        return judge_observed(tup(case['s']))
    if case['kind'] == 'keydoor_resets':
        return judge_keydoor_resets(tuple(case['shape']), list(case['script']))
    if case['kind'] == 'job':
        return dyn.replay_job(case, _worker)
    if case['kind'] == 'step':
        return judge(tuple(case['names']), tup(case['s']), case['a'])[2]
    if case['kind'] == 'reach':
        return reach.replay_trace(case, make_hooks)
    if case['kind'] == 'stateful_actuate':
        return judge_stateful_actuate(tup(case['s']))
    if case['kind'] == 'repose':
        return judge_repose(tup(case['s']))
    if case['kind'] == 'subkey':
        return judge_subclass_key()[1]
    raise ValueError(case['kind'])


def run(rep, tier, seed):
    plan = dyn.standard_plan(tier, CHAINS, CHAINS_HI, held_lo='full' if tier == 'quick' else 'small', held_hi='two', sigma_hi='door5')
    rep.bounds['chains'] = ['+'.join(c) for c in CHAINS]
    # colourless (Color.NONE) doors and keys: an empty hand also has colour NONE
    for sh in ((1, 2), (1, 3), (2, 2)):
        plan.append(dict(shape=sh, sigma='door0', k=2, held='key0', chains=[('actuate_door',), dyn.CHAIN_KEYDOOR, dyn.CHAIN_FULL],
                         actions=R.ACTIONS))
    tot = dyn.run_universe(rep, plan, _worker, replay)
    if tier == 'quick':
        names, init_limit, max_states, gcap = ['keydoor.5x5', 'keydoor.7x7'], 300, 40000, 6
    else:
        names, init_limit, max_states, gcap = ['keydoor.5x5', 'keydoor.7x7'], 400, 40000, 8
    rs, rt = dyn.run_reach(rep, names, init_limit, max_states, make_hooks, replay, 'door_protocol', group_cap=gcap, lineages=2)
    sb = 0
    nested = [U.box(U.box(U.key(U.C1))), U.box(U.key(U.C1)), U.box(U.box(U.box(U.FLOOR))), U.door(1, U.C1), U.door(2, U.C1)]
    for obj in nested:
        for held in (U.NONE, U.key(U.C1)):
            s0 = (((U.FLOOR, obj), (U.FLOOR, U.FLOOR)), 0, 0, 'R', held)
            sb += 1
            m = judge_stateful_actuate(s0)
            if m:
                rep.violation({'kind': 'stateful_actuate', 's': s0, 'sig': {'part': 'stateful'}}, m)
            m = judge_observed(s0)
            if m:
                rep.violation({'kind': 'observed', 's': s0, 'sig': {'part': 'observed'}}, m)
            if held == U.NONE:
                m = judge_repose(s0)
                if m:
                    rep.violation({'kind': 'repose', 's': s0, 'sig': {'part': 'repose'}}, m)
    for shape in ((5, 5), (7, 7), (4, 6)):
        for script in ([], [1], [0, 1, 1]):
            sb += 1
            m = judge_keydoor_resets(shape, script)
            if m:
                rep.violation({'kind': 'keydoor_resets', 'shape': shape, 'script': script, 'sig': {'part': 'keydoor_resets'}}, m)
    rep.part('stateful_and_reposed', cases=sb)
    kn, km = judge_subclass_key()
    if km:
        rep.violation({'kind': 'subkey', 'sig': {'part': 'key_subclass'}}, km)
    rep.part('key_subclass', cases=kn)
    rep.assume('the history invariant "a locked door is never found open unless a matching key was used" is checked '
               'inductively: every edge of the reachable graph that changes a door status must be a faced ACTUATE with '
               'a matching key (or a closed door), starting from reset states whose door is LOCKED')
    return rep.finish(
        states=tot['states'] + rs,
        transitions=tot['exec'] + rt,
        validated=tot['exec'] + rt,
        evaluations=tot['cases'] + rt,
        distinct_nontrivial=tot['nontrivial'],
        rule='universe case = (grid, pose, held item, function/chain, action) enumerated once; non-trivial = a grid with a '
        'door or box and the action is ACTUATE or the agent faces the door/box',
    )

"""C16 -- numeric representations are faithful: lossless, positional and well-separated.

(i)   per-object encodings over every object of each space: default == (type index, status, colour value);
      no-overlap: value sets of the three channels pairwise disjoint; compact: additionally consecutive from 0;
(ii)  positional: the grid entry of cell (y,x) is the object's code, identical at every cell, other cells
      untouched; agent marker one-hot exactly at the agent cell; item channel == code of the held object;
(iii) injectivity over a universe of members per space (<=2 deviations, all poses, held items): members share a
      representation iff they are equal; equal members hash alike (exhaustive over all pairs by bucketing on the
      byte image).
"""
import hashlib
import itertools

import numpy as np

from gym_gridverse.utils.fast_copy import fast_copy

from .. import dyn
from .. import reps as P
from ..desc import HIDDEN, NONE, mk, mkobs, mkstate, sdesc, tup
from ..pool import pmap, run_fresh

def _type_index():
    # the type index is the position in the library's registration order (a new registered type may legitimately
    # shift it, so it is read from the registry list rather than hard-coded)
    from gym_gridverse.grid_object import grid_object_registry

    return {t.__name__: i for i, t in enumerate(list(grid_object_registry))}


TYPE_INDEX = _type_index()


def image(arrays):
    h = hashlib.blake2b(digest_size=16)
    for k in sorted(arrays):
        a = np.ascontiguousarray(arrays[k])
        h.update(k.encode())
        h.update(str(a.dtype).encode())
        h.update(str(a.shape).encode())
        h.update(a.tobytes())
    return h.digest()


def eq_key(m):
    """what the library's == looks at: descriptors without Box content"""
    strip = lambda d: (d[0], d[1], d[2])  # noqa: E731
    rows, y, x, h, held = m
    return (tuple(tuple(strip(o) for o in r) for r in rows), y, x, h, strip(held))


def judge_space(kind, shape, types, colours, repname, devs):
    objs = P.objects_of(types, colours, box_contents=True)
    if kind == 'state':
        sp = P.state_space(shape, types, colours)
        rep = P.make_state_representation(repname, sp)
        build, members = mkstate, P.state_members(shape, objs, devs=devs)
        code_objs = objs + [NONE]
    else:
        sp = P.obs_space(shape, types, colours)
        rep = P.make_observation_representation(repname, sp)
        build, members = mkobs, P.obs_members(shape, objs, devs=devs)
        code_objs = objs + [HIDDEN, NONE]
    H, W = shape
    n = 0
    # (i) per-object codes, taken from the item channel (held) and cross-checked with the grid channel below
    base = P.fill(shape, objs[0])
    ay, ax = (H - 1, W // 2) if kind == 'observation' else (0, 0)
    codes = {}
    for o in code_objs:
        if o == HIDDEN:
            arr = rep.convert(build((P.with_cell(base, (0, 0), o), ay, ax, 'F', NONE)))
            codes[o] = tuple(int(v) for v in arr['grid'][0, 0])
        else:
            arr = rep.convert(build((base, ay, ax, 'F', o)))
            codes[o] = tuple(int(v) for v in arr['item'])
        n += 1
    chans = [set(c[i] for c in codes.values()) for i in range(3)]
    if repname == 'default':
        for o, c in codes.items():
            want = (TYPE_INDEX[o[0]], o[1], o[2])
            if c != want:
                return n, f'default code of {o[0]}{o[1:3]} is {c}, expected (type index, status, colour) = {want}', None
    else:
        for i, j in ((0, 1), (0, 2), (1, 2)):
            if chans[i] & chans[j]:
                return n, f'{repname}: channels {i} and {j} share values {sorted(chans[i] & chans[j])}', None
        if repname == 'compact':
            used = chans[0] | chans[1] | chans[2]
            if used != set(range(len(used))):
                return n, f'compact: used values {sorted(used)} are not consecutive from zero', None
    distinct = {}
    for o, c in codes.items():
        key = (o[0], o[1], o[2])
        if c in distinct and distinct[c] != key:
            return n, f'{repname}: objects {distinct[c]} and {key} share the code {c}', None
        distinct[c] = key
    # (ii)+(iii) over members
    base_arr = None
    buckets = {}
    bucket_obj = {}
    eqs = {}
    retained = []
    for m in members:
        n += 1
        obj = build(m)
        arr = rep.convert(obj)
        rows, y, x, h, held = m
        g = arr['grid']
        if g.shape != (H, W, 3):
            return n, f'grid channel has shape {g.shape}', m
        for yy in range(H):
            for xx in range(W):
                if tuple(int(v) for v in g[yy, xx]) != codes[rows[yy][xx]]:
                    return n, (f'grid entry {(yy, xx)} = {tuple(int(v) for v in g[yy, xx])} is not the code '
                               f'{codes[rows[yy][xx]]} of the object in that cell ({rows[yy][xx][0]})'), m
        aid = arr['agent_id_grid']
        want = np.zeros((H, W), int)
        want[y, x] = 1
        if aid.shape != (H, W) or not np.array_equal(aid, want):
            return n, f'agent marker is not one-hot at the agent cell {(y, x)}', m
        if tuple(int(v) for v in arr['item']) != codes[held]:
            return n, f'item channel {tuple(int(v) for v in arr["item"])} is not the code of the held object', m
        img = image(arr)
        ek = eq_key(m)
        if img in buckets and buckets[img] != ek:
            return n, f'two different members share one representation: {buckets[img][1:]} vs {ek[1:]}', m
        # the library's own == decides "equal": members sharing a representation must be ==, and vice versa
        if img in bucket_obj and not (bucket_obj[img] == obj):
            return n, 'two members that the library does not consider equal share one representation', m
        if img not in bucket_obj:
            bucket_obj[img] = obj
        if ek in eqs and eqs[ek] != img:
            return n, 'two equal members have different representations', m
        if ek not in eqs:
            # equality / hash agreement with an independently built equal copy
            cp = fast_copy(obj)
            if not (cp == obj) or hash(cp) != hash(obj):
                return n, 'a copy of a member does not equal / hash like the member', m
            if image(rep.convert(cp)) != img:
                return n, 'a copy of a member has a different representation', m
        if n % 5 == 0:
            # the same cells held in tuple rows (Grid(list(zip(*columns))) builds such a grid): equal to the list-built member,
            # same hash, same representation
            from gym_gridverse.grid import Grid as _Grid
            twin = type(obj)(_Grid([tuple(r) for r in obj.grid.objects]), fast_copy(obj.agent))
            if not (twin == obj) or not (obj == twin):
                return n, 'a member whose grid rows are tuples is not == to the member with the same cells in list rows (their representations are identical)', m
            if hash(twin) != hash(obj) or image(rep.convert(twin)) != img:
                return n, 'a member whose grid rows are tuples hashes / converts differently from the equal list-built member', m
        buckets[img] = ek
        eqs[ek] = img
        if len(retained) < 64:
            retained.append((arr, {k: np.array(v, copy=True) for k, v in arr.items()}))
        # equal members hash alike even when one of them got there through in-place mutation (the library's own
        # transition functions open doors by assigning door.state): hash first, mutate, compare with a fresh build
        doors = [(yy, xx) for yy in range(H) for xx in range(W) if rows[yy][xx][0] == 'Door' and rows[yy][xx][1] != 0]
        if doors and kind == 'state':
            from gym_gridverse.grid_object import Door

            hash(obj), hash(obj.grid)
            cp = fast_copy(obj)
            yy, xx = doors[0]
            for target in (obj, cp):
                target.grid[yy, xx].state = Door.Status.OPEN
            opened = (P.with_cell(rows, (yy, xx), ('Door', 0, rows[yy][xx][2], None)), y, x, h, held)
            fresh = build(opened)
            for target, how in ((obj, 'in place'), (cp, 'on a copy')):
                if not (target == fresh):
                    return n, f'a state mutated {how} (door opened) does not equal the freshly built equal state', m
                if hash(target) != hash(fresh) or hash(target.grid) != hash(fresh.grid):
                    return n, f'equal states hash differently after a door was opened {how} (stale cached hash?)', m
    # arrays handed out earlier must still hold the representation they were returned with
    for arr, cp in retained:
        for k in cp:
            if not np.array_equal(arr[k], cp[k]):
                return n, f'a representation returned earlier was overwritten by later conversions (entry {k!r} aliased to an internal buffer)', None
    return n, None, None


def judge_registry_reads():
    """reading the registry (names(), from_name(), iteration, membership) is not an update: the type indices - hence the
    default encoding of every object - are the same before and after, and a representation gives the same arrays"""
    from gym_gridverse.grid_object import grid_object_registry

    types = ('Wall', 'Floor', 'Exit', 'Door', 'Key', 'Beacon', 'Telepod', 'MovingObstacle')
    sp = P.state_space((2, 3), types, (1, 4))
    rep = P.make_state_representation('default', sp)
    members = list(P.state_members((2, 3), P.objects_of(types, (1, 4))))[::7]
    before_idx = {t.__name__: t.type_index() for t in list(grid_object_registry)}
    before = [image(rep.convert(mkstate(m))) for m in members]
    n = len(members)
    reads = [('names()', lambda: grid_object_registry.names()), ('names() again', lambda: grid_object_registry.names()),
             ('from_name', lambda: [grid_object_registry.from_name(nm) for nm in before_idx]),
             ('iteration', lambda: [t for t in grid_object_registry]), ('sorted(registry)', lambda: sorted(grid_object_registry, key=lambda t: t.__name__)),
             ('len / membership', lambda: (len(grid_object_registry), list(grid_object_registry)[0] in grid_object_registry)),
             # a plugin that registers its types again every time it is loaded (the registry is a list: a second entry is
             # redundant, the class keeps its first index)
             ('registering a user-defined type again', lambda: grid_object_registry.register(P.TYPES['VerifPlain3'])),
             ('registering a library type again', lambda: grid_object_registry.register(P.TYPES['Key']))]
    for what, read in reads:
        read()
        after_idx = {t.__name__: t.type_index() for t in list(grid_object_registry)}
        if after_idx != before_idx:
            moved = sorted(k for k in before_idx if before_idx[k] != after_idx.get(k))
            return n, f'reading the grid-object registry ({what}) changed the type indices of {moved[:6]}'
        rep2 = P.make_state_representation('default', sp)
        for m, img in zip(members, before):
            n += 2
            if image(rep.convert(mkstate(m))) != img or image(rep2.convert(mkstate(m))) != img:
                return n, f'after reading the grid-object registry ({what}) equal states get a different default representation'
    return n, None


def _work(job):
    n = spaces = 0
    fails = []
    for kind, shape, types, colours, devs in job:
        for repname in P.REPS:
            try:
                k, msg, m = judge_space(kind, shape, types, colours, repname, devs)
            except Exception as e:  # noqa: BLE001
                k, msg, m = 1, f'conversion raised {type(e).__name__}: {e}', None
            n += k
            spaces += 1
            if msg and len(fails) < 3:
                fails.append({'kind': 'space', 'skind': kind, 'shape': shape, 'types': types, 'colours': colours, 'rep': repname,
                              'devs': devs, 'member': m,
                              'message': f'{kind} space {shape} types {list(types)} colours {list(colours)} [{repname}]: {msg}',
                              'sig': {'rep': repname, 'kind': kind}, 'simplicity': len(types) * 10 + len(colours) + shape[0] * shape[1]})
    return n, spaces, fails


def replay(case):
    if case['kind'] == 'registry_reads':
        return judge_registry_reads()[1]
    try:
        return judge_space(case['skind'], tuple(case['shape']), tuple(case['types']), tuple(case['colours']), case['rep'], case['devs'])[1]
    except Exception as e:  # noqa: BLE001
        return f'conversion raised {type(e).__name__}: {e}'


def spaces(tier):
    names = [t for t in P.TYPE_ORDER]
    out = []
    colour_sets = [(), (4,), (1, 4), (1, 2, 3, 4)]
    subsets = [c for k in (1, 2) for c in itertools.combinations(names, k)] + [tuple(s) for s in P.SHIPPED_TYPE_SETS]
    if tier != 'quick':
        subsets += [c for c in itertools.combinations(names, 3)] + [tuple(names), tuple(t for t in names if t != 'Box')]
    else:
        subsets += [tuple(names), tuple(t for t in names if t != 'Box')]
    # many user-defined types registered after the library's: type indices beyond the built-in range
    subsets += [('Floor', 'Door') + tuple(P.PLAIN_NAMES), ('Wall', 'Floor', 'Exit', 'Door', 'Key', 'Beacon', 'Telepod') + tuple(P.PLAIN_NAMES)]
    subsets += [('Floor', 'Key', 'VerifSubKey'), ('Wall', 'Floor', 'Exit', 'Door', 'Key', 'VerifSubKey'), ('Wall', 'Floor', 'Door', 'Key', 'Hidden'), ('NoneGridObject', 'Floor', 'Exit'), ('Floor', 'Wall', 'Floor', 'Key'),
                ('Hidden', 'NoneGridObject', 'Floor', 'Door')]
    for ts in subsets:
        for cs in colour_sets:
            big = len(ts) > 5
            for sh in ((2, 2), (2, 3), (3, 3)):
                if 'Box' not in ts and 'Hidden' not in ts:
                    devs = 2 if (sh == (2, 3) and not big) or (tier != 'quick' and not big) else 1
                    out.append(('state', sh, ts, cs, devs))
            for sh in ((1, 1), (2, 3), (3, 3), (3, 5)):
                devs = 2 if (sh == (2, 3) and not big) or (tier != 'quick' and sh != (3, 5) and not big) else 1
                out.append(('observation', sh, ts, cs, devs))
    return out


def run(rep, tier, seed):
    # first, before anything else has run in this process: reads of the registry
    rn, rm = run_fresh(lambda _: judge_registry_reads(), None)  # in a child: the re-registrations stay out of this process
    if rm:
        rep.violation({'kind': 'registry_reads', 'sig': {'part': 'registry_reads'}}, rm)
    rep.part('registry_reads', conversions=rn)
    sp = spaces(tier)
    sp.sort(key=lambda s: -(len(P.objects_of(s[2], s[3])) ** s[4]) * s[1][0] * s[1][1])
    jobs = [sp[i::256] for i in range(256)]
    n = ns = 0
    fails = []
    for k, s, fl in dyn.pmap_w('work', _work, jobs):
        n += k
        ns += s
        fails.extend(fl)
    fails.sort(key=lambda f: f['simplicity'])
    dyn.report_fails(rep, fails, replay)
    rep.part('spaces', spaces=len(sp), space_x_representation=ns, members_converted=n)
    rep.bounds = {'type_subsets': 'sizes 1..2 + shipped sets + all 9 (+ size 3 in thorough)', 'colour_subsets': 4,
                  'grid_shapes': [(2, 2), (2, 3), (3, 3)], 'view_shapes': [(1, 1), (2, 3), (3, 3), (3, 5)],
                  'member_universe': 'every object at every cell, every pose, every held item; on selected shapes all members with 2 non-default cells'}
    rep.sample({'kind': 'space', 'skind': 'state', 'shape': [2, 3], 'types': ['Wall', 'Floor', 'Exit', 'Door', 'Key'], 'colours': [4],
                'rep': 'compact', 'devs': 2})
    rep.assume('observation members are those an observation function can produce (agent at the view anchor facing FORWARD): the '
               'observation encoding carries no heading')
    rep.assume('injectivity over all pairs of the enumerated universe is decided by bucketing on a 128-bit digest of the byte '
               'image of the representation')
    return rep.finish(
        states=n,
        transitions=n,
        validated=n,
        evaluations=n,
        distinct_nontrivial=ns,
        rule='case = one member converted, compared cell by cell with the per-object code table and bucketed for injectivity; '
        'distinct_nontrivial = distinct (space, representation) pairs',
    )


WORKERS = {'work': _work}

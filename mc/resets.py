"""Shared machinery for the reset-function properties (C13 well-formedness, C14 winnability)."""
import itertools

from gym_gridverse.envs import reset_functions as RS
from gym_gridverse.geometry import Shape
from gym_gridverse.grid_object import Color, MovingObstacle, Wall

from . import refmodel as R
from .choice import ChoiceRng, RecordingRng, explore
from .desc import NONE, sdesc

COL = {c.name: c for c in Color}


def call(name, params, rng):
    """call the registered reset function; returns State or ('EXC', type name, text)"""
    fn = RS.reset_function_registry[name]
    kw = dict(params)
    kw['shape'] = Shape(*kw['shape'])
    if 'colors' in kw:
        kw['colors'] = set(COL[c] for c in kw['colors'])
    if 'layout' in kw:
        kw['layout'] = tuple(kw['layout'])
    if 'object_type' in kw:
        kw['object_type'] = {'Wall': Wall, 'MovingObstacle': MovingObstacle}[kw['object_type']]
    try:
        return fn(rng=rng, **kw)
    except Exception as e:  # noqa: BLE001
        return ('EXC', type(e).__name__, str(e)[:160])


def outcomes(name, params, limit, max_dev=2):
    """[(choices, result)], info -- every random outcome if there are <= limit, else the largest deviation bound
    d <= max_dev whose enumeration fits (d=0 always fits)"""
    from .choice import ScriptDivergence
    run = lambda rng: call(name, params, rng)  # noqa: E731
    out = []
    try:
        for choices, res, _ in explore(run, max_runs=limit + 1):
            out.append((choices, res))
    except ScriptDivergence:
        # the function did not consume the same script the same way twice: it is not a function of (parameters, draws).
        # Reported as an outcome so that the check can turn it into a verdict (with the process history as replay).
        return out + [([], ('EXC', 'HistoryDependence', 'the same scripted draws were consumed differently by a repeated call of '
                            'the reset function (its random picks depend on earlier calls in the process)'))], {'complete': False, 'dev_bound': 0, 'outcomes': len(out) + 1}
    if len(out) <= limit:
        return out, {'complete': True, 'outcomes': len(out)}
    best, best_d = None, None
    for d in range(0, max_dev + 1):
        cur = []
        try:
            for choices, res, _ in explore(run, dev_bound=d, max_runs=limit + 1):
                cur.append((choices, res))
        except ScriptDivergence:
            return cur + [([], ('EXC', 'HistoryDependence', 'the same scripted draws were consumed differently by a repeated call of '
                                'the reset function (its random picks depend on earlier calls in the process)'))], {'complete': False, 'dev_bound': d, 'outcomes': len(cur) + 1}
        if len(cur) > limit:
            break
        best, best_d = cur, d
    if best is None:
        best, best_d = out[:1], 0
    return best, {'complete': False, 'dev_bound': best_d, 'outcomes': len(best)}


def real_seed(name, params, seed):
    rec = RecordingRng(seed)
    res = call(name, params, rec)
    return rec.script, res


# ---------------------------------------------------------------- well-formedness
def count(rows, t):
    return sum(1 for r in rows for o in r if o[0] == t)


def wellformed(name, params, k):
    """message if the state descriptor k is not a well-formed initial state for this reset function"""
    rows, y, x, h, held = k
    H, W = params['shape']
    if R.shape(rows) != (H, W):
        return f'shape {R.shape(rows)} != requested {(H, W)}'
    for yy in range(H):
        for xx in range(W):
            if (yy in (0, H - 1) or xx in (0, W - 1)) and rows[yy][xx][0] != 'Wall':
                return f'boundary cell {(yy, xx)} is {rows[yy][xx][0]}, not Wall'
    if not R.inside(rows, (y, x)):
        return f'agent outside the grid at {(y, x)}'
    if held != NONE:
        return f'agent starts holding {held[0]}'
    here = rows[y][x]
    if R.blocks_move(here) or here[0] in ('Exit', 'MovingObstacle', 'Telepod'):
        return f'agent starts on a {here[0]} cell'
    exits = R.find_all(rows, 'Exit')
    if name in ('empty', 'rooms', 'dynamic_obstacles', 'keydoor', 'crossing', 'teleport'):
        if len(exits) != 1:
            return f'{len(exits)} exits, expected exactly one'
    if name == 'dynamic_obstacles':
        n = count(rows, 'MovingObstacle')
        if n != params['num_obstacles']:
            return f'{n} obstacles, requested {params["num_obstacles"]}'
    elif count(rows, 'MovingObstacle') and not (name == 'crossing' and params.get('object_type') == 'MovingObstacle'):
        return 'unexpected moving obstacle'
    if name == 'keydoor':
        doors = R.find_all(rows, 'Door')
        keys = R.find_all(rows, 'Key')
        if len(doors) != 1 or len(keys) != 1:
            return f'{len(doors)} doors / {len(keys)} keys, expected 1 / 1'
        (dy, dx), (ky, kx) = doors[0], keys[0]
        d, kk = rows[dy][dx], rows[ky][kx]
        if d[1] != 2:
            return 'the door is not LOCKED'
        if kk[2] != d[2]:
            return "the key's colour differs from the door's"
        for yy in range(1, H - 1):
            if (yy, dx) != (dy, dx) and rows[yy][dx][0] != 'Wall':
                return f'dividing wall column {dx} has a gap at row {yy}'
        if not (0 < kx < dx and 0 < x < dx):
            return f'key (x={kx}) and agent (x={x}) must both be strictly left of the dividing wall (x={dx})'
        if not exits[0][1] > dx:
            return 'the exit is not beyond the dividing wall'
    if name == 'teleport':
        tp = R.find_all(rows, 'Telepod')
        if len(tp) != 2 or rows[tp[0][0]][tp[0][1]][2] != rows[tp[1][0]][tp[1][1]][2]:
            return f'{len(tp)} telepods (expected two of one colour)'
    if name in ('memory', 'memory_rooms'):
        want_exits = 2 if name == 'memory' else params['num_exits']
        want_beacons = 2 if name == 'memory' else params['num_beacons']
        ecols = [rows[p[0]][p[1]][2] for p in exits]
        bcols = {rows[p[0]][p[1]][2] for p in R.find_all(rows, 'Beacon')}
        if len(exits) != want_exits:
            return f'{len(exits)} exits, expected {want_exits}'
        if count(rows, 'Beacon') != want_beacons:
            return f'{count(rows, "Beacon")} beacons, expected {want_beacons}'
        if len(set(ecols)) != len(ecols):
            return f'exit colours {ecols} are not pairwise distinct'
        if len(bcols) != 1:
            return f'beacons have colours {sorted(bcols)}'
        if ecols.count(next(iter(bcols))) != 1:
            return 'the beacon colour does not match exactly one exit'
        allowed = {COL[c].value for c in params['colors']}
        if not set(ecols) <= allowed:
            return 'an exit has a colour outside the requested colour set'
    return None


# ---------------------------------------------------------------- parameter grids
SHIPPED = [
    ('crossing', {'shape': (5, 5), 'num_rivers': 1, 'object_type': 'Wall'}),
    ('crossing', {'shape': (7, 7), 'num_rivers': 2, 'object_type': 'Wall'}),
    ('dynamic_obstacles', {'shape': (5, 5), 'num_obstacles': 1, 'random_agent': False}),
    ('dynamic_obstacles', {'shape': (7, 7), 'num_obstacles': 2, 'random_agent': False}),
    ('empty', {'shape': (4, 4), 'random_agent': True}),
    ('empty', {'shape': (8, 8), 'random_agent': True}),
    ('rooms', {'shape': (7, 7), 'layout': (2, 2)}),
    ('rooms', {'shape': (9, 9), 'layout': (2, 2)}),
    ('keydoor', {'shape': (5, 5)}),
    ('keydoor', {'shape': (7, 7)}),
    ('keydoor', {'shape': (9, 9)}),
    ('memory', {'shape': (5, 5), 'colors': ('RED', 'GREEN', 'BLUE', 'YELLOW')}),
    ('memory', {'shape': (9, 9), 'colors': ('RED', 'GREEN', 'BLUE', 'YELLOW')}),
    ('memory_rooms', {'shape': (7, 7), 'layout': (2, 2), 'colors': ('RED', 'GREEN', 'BLUE', 'YELLOW'), 'num_beacons': 1, 'num_exits': 2}),
    ('memory_rooms', {'shape': (9, 9), 'layout': (2, 2), 'colors': ('RED', 'GREEN', 'BLUE', 'YELLOW'), 'num_beacons': 1, 'num_exits': 2}),
    ('memory_rooms', {'shape': (10, 10), 'layout': (3, 3), 'colors': ('RED', 'GREEN', 'BLUE', 'YELLOW'), 'num_beacons': 1, 'num_exits': 2}),
    ('memory_rooms', {'shape': (13, 13), 'layout': (3, 3), 'colors': ('RED', 'GREEN', 'BLUE', 'YELLOW'), 'num_beacons': 1, 'num_exits': 2}),
    ('rooms', {'shape': (10, 10), 'layout': (3, 3)}),
    ('rooms', {'shape': (13, 13), 'layout': (3, 3)}),
    ('teleport', {'shape': (5, 5)}),
    ('teleport', {'shape': (7, 7)}),
]

COLOR_SETS = [(), ('RED',), ('RED', 'GREEN'), ('NONE', 'RED'), ('NONE', 'RED', 'GREEN'), ('RED', 'GREEN', 'BLUE'),
              ('RED', 'GREEN', 'BLUE', 'YELLOW')]


def parameter_points(tier):
    """(name, params) for every point of the bounded parameter grid, simplest first"""
    maxdim = 9 if tier == 'quick' else 11
    shapes = [(h, w) for h in range(1, maxdim + 1) for w in range(1, maxdim + 1)]
    if tier == 'quick':
        # all shapes up to 6x6, and beyond that the squares, the near-squares and the extreme aspect ratios
        shapes = [s for s in shapes if max(s) <= 6 or abs(s[0] - s[1]) <= 1 or min(s) <= 2 or s[0] == 5 or s[1] == 5]
    pts = []
    for sh in shapes:
        n = sh[0] * sh[1]
        for ra in (False, True):
            for re_ in (False, True):
                pts.append(('empty', {'shape': sh, 'random_agent': ra, 'random_exit': re_}))
        for lay in itertools.product((1, 2, 3), repeat=2):
            pts.append(('rooms', {'shape': sh, 'layout': lay}))
        for nob in sorted({0, 1, 2, 5, (sh[0] - 2) * (sh[1] - 2) - 2, (sh[0] - 2) * (sh[1] - 2) - 1, (sh[0] - 2) * (sh[1] - 2), -1}):
            for ra in (False, True):
                pts.append(('dynamic_obstacles', {'shape': sh, 'num_obstacles': nob, 'random_agent': ra}))
        pts.append(('keydoor', {'shape': sh}))
        for nr in (-1, 0, 1, 2, 5):
            for ot in ('Wall', 'MovingObstacle'):
                if ot == 'MovingObstacle' and nr not in (1, 2):
                    continue
                pts.append(('crossing', {'shape': sh, 'num_rivers': nr, 'object_type': ot}))
        pts.append(('teleport', {'shape': sh}))
        for cs in COLOR_SETS:
            pts.append(('memory', {'shape': sh, 'colors': cs}))
        for lay in ((1, 1), (1, 2), (2, 1), (2, 2), (3, 3), (1, 3)):
            for cs in (('RED', 'GREEN'), ('RED', 'GREEN', 'BLUE', 'YELLOW'), ('NONE', 'RED', 'GREEN'), ('RED',)):
                for nb, ne in ((1, 2), (2, 2), (1, 3), (0, 2), (1, 1), (3, 5), (1, 0)):
                    if cs != ('RED', 'GREEN', 'BLUE', 'YELLOW') and (nb, ne) not in ((1, 2), (1, 3)):
                        continue
                    pts.append(('memory_rooms', {'shape': sh, 'layout': lay, 'colors': cs, 'num_beacons': nb, 'num_exits': ne}))
    # larger sizes for the room layouts (wall coordinates come from a division: numeric corners show up only at sizes
    # far beyond the shipped ones); one axis large, the other small
    big = range(10, 41) if tier == 'quick' else range(10, 72)
    for size in big:
        for rooms_n in range(1, 15):
            pts.append(('rooms', {'shape': (size, 7), 'layout': (rooms_n, 2)}))
            pts.append(('rooms', {'shape': (7, size), 'layout': (2, rooms_n)}))
        for rooms_n in (2, 5, 7, 11, 13):
            pts.append(('memory_rooms', {'shape': (size, 7), 'layout': (rooms_n, 1), 'colors': ('RED', 'GREEN'), 'num_beacons': 1, 'num_exits': 2}))
    # a few sizes far beyond the shipped ones for every reset function (anything whose cost or depth grows with the number
    # of cells - recursion, quadratic scans - shows up only here)
    for sh in ((35, 35), (41, 41), (5, 301), (301, 5)) + (((61, 61),) if tier != 'quick' else ()):
        pts.append(('empty', {'shape': sh, 'random_agent': True, 'random_exit': True}))
        pts.append(('rooms', {'shape': sh, 'layout': (2, 2) if min(sh) > 5 else (1, 1)}))
        pts.append(('dynamic_obstacles', {'shape': sh, 'num_obstacles': 5, 'random_agent': True}))
        pts.append(('keydoor', {'shape': sh}))
        for nr in (1, 2, 5):
            pts.append(('crossing', {'shape': sh, 'num_rivers': nr, 'object_type': 'Wall'}))
        pts.append(('teleport', {'shape': sh}))
        pts.append(('memory', {'shape': sh, 'colors': ('RED', 'GREEN')}))
        pts.append(('memory_rooms', {'shape': sh, 'layout': (1, 1), 'colors': ('RED', 'GREEN'), 'num_beacons': 1, 'num_exits': 2}))
    for name, params in SHIPPED:
        if (name, params) not in pts:
            pts.append((name, params))
    return pts


def is_shipped(name, params):
    for n, p in SHIPPED:
        if n == name and all(params.get(k) == v for k, v in p.items()):
            return True
    return False

"""Evidence, violation replays and known-findings handling shared by every check."""
import json
import os
import subprocess
import sys
import time

from .boot import VERIF

# VERIF_OUT redirects evidence/replays (used when checks are pointed at a scratch copy via VERIF_REPO, so that
# the committed evidence always stems from /repo itself)
_OUT = os.environ.get('VERIF_OUT') or VERIF
EVIDENCE_DIR = os.path.join(_OUT, 'evidence')
REPLAY_DIR = os.path.join(_OUT, 'replays')
KNOWN_FILE = os.path.join(VERIF, 'known_findings.json')
MAX_REPLAYS = 12  # replay files written per run (further violations are only counted)


def load_known():
    try:
        with open(KNOWN_FILE) as f:
            data = json.load(f)
    except FileNotFoundError:
        return []
    return [e for e in data.get('findings', []) if e.get('status') == 'open']


def jsonable(x):
    import numpy as np

    if isinstance(x, dict):
        return {str(k): jsonable(v) for k, v in x.items()}
    if isinstance(x, (list, tuple, set, frozenset)):
        seq = sorted(x, key=repr) if isinstance(x, (set, frozenset)) else x
        return [jsonable(v) for v in seq]
    if isinstance(x, (np.integer,)):
        return int(x)
    if isinstance(x, (np.floating,)):
        return float(x)
    if isinstance(x, (np.bool_,)):
        return bool(x)
    if isinstance(x, np.ndarray):
        return jsonable(x.tolist())
    if isinstance(x, float) and (x != x or x in (float('inf'), float('-inf'))):
        return repr(x)
    if isinstance(x, (str, int, float, bool)) or x is None:
        return x
    if hasattr(x, 'name') and hasattr(x, 'value'):
        return x.name
    return repr(x)


class Report:
    """Accumulates coverage counters, samples, violations for one property run."""

    def __init__(self, pid, tier, seed, level='model_checking'):
        self.pid = pid
        self.tier = tier
        self.seed = seed
        self.level = level
        self.t0 = time.time()
        self.counters = {}
        self.parts = {}
        self.samples = []
        self.assumptions = []
        self.bounds = {}
        self.caps = []
        self.exhaustive = True
        self.violations = []  # (signature, case, message)
        self.known_hits = {}  # finding id -> count
        self.known = [e for e in load_known() if e.get('property') == pid]
        self.degraded = []
        self._sig_seen = set()

    # ---- counting -------------------------------------------------------
    def add(self, key, n=1):
        self.counters[key] = self.counters.get(key, 0) + n

    def merge_counts(self, d):
        for k, v in d.items():
            self.add(k, v)

    def part(self, name, **kw):
        p = self.parts.setdefault(name, {})
        for k, v in kw.items():
            if isinstance(v, (int, float)) and not isinstance(v, bool) and isinstance(p.get(k), (int, float)):
                p[k] += v
            else:
                p[k] = v

    def sample(self, case, limit=8):
        if len(self.samples) < limit:
            self.samples.append(jsonable(case))

    def assume(self, text):
        if text not in self.assumptions:
            self.assumptions.append(text)

    def cap(self, text):
        self.exhaustive = False
        if text not in self.caps:
            self.caps.append(text)

    def degrade(self, text):
        self.exhaustive = False
        if text not in self.degraded:
            self.degraded.append(text)

    # ---- findings --------------------------------------------------------
    def match_known(self, case):
        """A known finding matches a case when every key of its `match` dict equals the case's `sig` entry."""
        sig = case.get('sig', {})
        for e in self.known:
            m = e.get('match', {})
            if m and all(sig.get(k) == v for k, v in m.items()):
                return e
        return None

    def violation(self, case, message):
        """Record a failing case (already re-executed by the caller). Returns True if it is a new violation."""
        case = jsonable(case)
        e = self.match_known(case)
        if e is not None:
            self.known_hits[e['id']] = self.known_hits.get(e['id'], 0) + 1
            return False
        self.violations.append((case, message))
        return True

    # ---- finishing -------------------------------------------------------
    def finish(self, states, transitions, validated, evaluations, distinct_nontrivial, rule, extra=None):
        os.makedirs(EVIDENCE_DIR, exist_ok=True)
        os.makedirs(REPLAY_DIR, exist_ok=True)
        # stale replays of this property are removed so the directory reflects this run
        for fn in os.listdir(REPLAY_DIR):
            if fn.startswith(self.pid + '-'):
                os.unlink(os.path.join(REPLAY_DIR, fn))
        for e in self.known:
            n = self.known_hits.get(e['id'], 0)
            if n:
                print(f"KNOWN-FINDING: property={self.pid} {e['id']}: {e['what']} ({n} cases this run)")
        paths = []
        for i, (case, message) in enumerate(self.violations):
            if i >= MAX_REPLAYS:
                break
            path = os.path.join(REPLAY_DIR, f'{self.pid}-{i}.json')
            with open(path, 'w') as f:
                json.dump({'property': self.pid, 'message': message, 'case': case}, f, indent=1, sort_keys=True)
            paths.append(path)
            print(f'VIOLATION property={self.pid} replay={path}')
            print(f'  {message}')
        if len(self.violations) > MAX_REPLAYS:
            print(f'  ... and {len(self.violations) - MAX_REPLAYS} further violating cases (counted, not written)')
        coverage = {
            'states': int(states),
            'transitions': int(transitions),
            'traces_validated_against_impl': int(validated),
            'evaluations': int(evaluations),
            'distinct_nontrivial': int(distinct_nontrivial),
            'rule': rule,
            'samples': self.samples or [{'note': 'no sample recorded'}],
            'exhaustive': bool(self.exhaustive and not self.caps),
            'bounds': jsonable(self.bounds),
            'caps_hit': self.caps,
            'degraded': self.degraded,
            'parts': jsonable(self.parts),
            'counters': jsonable(self.counters),
            'known_findings_hit': self.known_hits,
        }
        if extra:
            coverage.update(jsonable(extra))
        ev = {
            'property_id': self.pid,
            'tier': self.tier,
            'seed': int(self.seed),
            'level': self.level,
            'coverage': coverage,
            'assumptions': self.assumptions,
            'wall_s': round(time.time() - self.t0, 3),
            'violations': len(self.violations),
        }
        path = os.path.join(EVIDENCE_DIR, f'{self.pid}.json')
        tmp = path + '.tmp'
        with open(tmp, 'w') as f:
            json.dump(ev, f, indent=1, sort_keys=True)
        os.replace(tmp, path)
        validate_evidence(path)
        print(
            f'[{self.pid}] tier={self.tier} states={states} transitions={transitions} '
            f'validated={validated} nontrivial={distinct_nontrivial} exhaustive={coverage["exhaustive"]} '
            f'violations={len(self.violations)} known={sum(self.known_hits.values())} wall={ev["wall_s"]}s'
        )
        return 1 if self.violations else 0


def validate_evidence(path):
    """Validate against the harness schema using the tooling venv (jsonschema lives there); best effort."""
    schema = '/root/.vp/EVIDENCE.schema.json'
    vt = '/opt/veriftools/pyvenv/bin/python'
    if not (os.path.exists(schema) and os.path.exists(vt)):
        return
    code = (
        'import json,sys,jsonschema;'
        'jsonschema.validate(json.load(open(sys.argv[1])), json.load(open(sys.argv[2])))'
    )
    r = subprocess.run([vt, '-c', code, path, schema], capture_output=True, text=True)
    if r.returncode != 0:
        print('INTERNAL: evidence file does not validate:', r.stderr[-600:], file=sys.stderr)
        raise SystemExit(3)

"""Fork pool with deterministic sharding.  Workers inherit the imported library (no re-import)."""
import multiprocessing as mp
import os

NPROC = int(os.environ.get('VERIF_JOBS', '0')) or min(16, os.cpu_count() or 1)

_fn = None


class _Fatal:
    def __init__(self, text):
        self.text = text


def _call(arg):
    try:
        return _fn(arg)
    except Exception:
        raise
    except BaseException as e:  # e.g. UnsupportedRngCall: must reach the parent instead of killing the worker silently
        return _Fatal(f'{type(e).__name__}: {e}')


def pmap(fn, items, jobs=None, chunksize=1, fresh=False):
    """ordered parallel map; `fn` must be a module-level or closure callable (fork => no pickling of fn).
    fresh=True runs every item in a newly forked process (clean module-level state of the library: whatever an item
    observes depends only on its own history, so a failing item can be re-run deterministically)."""
    global _fn
    items = list(items)
    jobs = jobs or NPROC
    if jobs <= 1 or len(items) <= 1:
        return [fn(x) for x in items]
    _fn = fn
    ctx = mp.get_context('fork')
    with ctx.Pool(min(jobs, len(items)), maxtasksperchild=1 if fresh else None) as pool:
        results = pool.map(_call, items, 1 if fresh else chunksize)
    for r in results:
        if isinstance(r, _Fatal):
            raise SystemExit(f'INTERNAL: harness limit reached in a worker: {r.text}')
    return results


def run_fresh(fn, item):
    """run fn(item) in one newly forked process (clean library state) and return its result"""
    global _fn
    _fn = fn
    ctx = mp.get_context('fork')
    with ctx.Pool(1, maxtasksperchild=1) as pool:
        r = pool.map(_call, [item], 1)[0]
    if isinstance(r, _Fatal):
        raise SystemExit(f'INTERNAL: harness limit reached in a worker: {r.text}')
    return r


def replay_in_new_interpreter(pid, case):
    """run `mc.run <pid> --replay <case>` in a brand-new interpreter (nothing inherited from this process: a forked child
    would inherit whatever module-level state of the library this process has built up).  -> message | None"""
    import json
    import subprocess
    import sys
    import tempfile
    here = os.path.dirname(os.path.dirname(os.path.abspath(__file__)))
    with tempfile.NamedTemporaryFile('w', suffix='.json', dir=os.environ.get('TMPDIR') or '/var/tmp', delete=False) as f:
        json.dump({'case': case}, f)
        path = f.name
    try:
        r = subprocess.run([sys.executable, '-W', 'ignore', '-m', 'mc.run', pid, '--replay', path], cwd=here,
                           capture_output=True, text=True, env=dict(os.environ, PYTHONHASHSEED='0'))
    finally:
        os.unlink(path)
    for line in r.stdout.splitlines():
        if line.startswith('REPLAY property=') and 'still fails: ' in line:
            return line.split('still fails: ', 1)[1]
        if line.startswith('REPLAY property=') and line.endswith('passes'):
            return None
    raise SystemExit(f'INTERNAL: replay subprocess for {pid} gave no verdict: {r.stdout[-300:]} {r.stderr[-600:]}')


def shards(seq, n=None):
    """split a list into n interleaved shards (deterministic, balanced)."""
    seq = list(seq)
    n = n or NPROC * 4
    n = max(1, min(n, len(seq)))
    return [seq[i::n] for i in range(n)]

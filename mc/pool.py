"""Fork pool with deterministic sharding.  Workers inherit the imported library (no re-import)."""
import multiprocessing as mp
import os

NPROC = int(os.environ.get('VERIF_JOBS', '0')) or min(16, os.cpu_count() or 1)

_fn = None


class _Fatal:
    def __init__(self, text):
        self.text = text


def _call(arg):
    try:
        return _fn(arg)
    except Exception:
        raise
    except BaseException as e:  # e.g. UnsupportedRngCall: must reach the parent instead of killing the worker silently
        return _Fatal(f'{type(e).__name__}: {e}')


def pmap(fn, items, jobs=None, chunksize=1, fresh=False):
    """ordered parallel map; `fn` must be a module-level or closure callable (fork => no pickling of fn).
    fresh=True runs every item in a newly forked process (clean module-level state of the library: whatever an item
    observes depends only on its own history, so a failing item can be re-run deterministically)."""
    global _fn
    items = list(items)
    jobs = jobs or NPROC
    if jobs <= 1 or len(items) <= 1:
        return [fn(x) for x in items]
    _fn = fn
    ctx = mp.get_context('fork')
    with ctx.Pool(min(jobs, len(items)), maxtasksperchild=1 if fresh else None) as pool:
        results = pool.map(_call, items, 1 if fresh else chunksize)
    for r in results:
        if isinstance(r, _Fatal):
            raise SystemExit(f'INTERNAL: harness limit reached in a worker: {r.text}')
    return results


def shards(seq, n=None):
    """split a list into n interleaved shards (deterministic, balanced)."""
    seq = list(seq)
    n = n or NPROC * 4
    n = max(1, min(n, len(seq)))
    return [seq[i::n] for i in range(n)]

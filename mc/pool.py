"""Fork pool with deterministic sharding.  Workers inherit the imported library (no re-import)."""
import multiprocessing as mp
import os

NPROC = int(os.environ.get('VERIF_JOBS', '0')) or min(16, os.cpu_count() or 1)

_fn = None


def _call(arg):
    return _fn(arg)


def pmap(fn, items, jobs=None, chunksize=1):
    """ordered parallel map; `fn` must be a module-level or closure callable (fork => no pickling of fn)."""
    global _fn
    items = list(items)
    jobs = jobs or NPROC
    if jobs <= 1 or len(items) <= 1:
        return [fn(x) for x in items]
    _fn = fn
    ctx = mp.get_context('fork')
    with ctx.Pool(min(jobs, len(items))) as pool:
        return pool.map(_call, items, chunksize)


def shards(seq, n=None):
    """split a list into n interleaved shards (deterministic, balanced)."""
    seq = list(seq)
    n = n or NPROC * 4
    n = max(1, min(n, len(seq)))
    return [seq[i::n] for i in range(n)]

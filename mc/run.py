"""CLI: python -m mc.run <Cxx> [--tier quick|thorough] [--replay file]"""
import argparse
import importlib
import json
import os
import sys
import traceback


THOROUGH_ON_QUICK_BOUNDS = {'C01', 'C02', 'C03', 'C05', 'C07', 'C09', 'C10', 'C12', 'C14', 'C15'}


def main():
    ap = argparse.ArgumentParser()
    ap.add_argument('pid')
    ap.add_argument('--tier', default=os.environ.get('VERIF_TIER') or 'quick', choices=['quick', 'thorough'])
    ap.add_argument('--replay')
    args = ap.parse_args()
    from . import boot

    boot.ensure_hashseed('0')
    boot.boot()
    try:
        seed = int(os.environ.get('VERIF_SEED', '0') or 0)
    except ValueError:
        seed = 0
    pid = args.pid.upper()
    mod = importlib.import_module(f'mc.checks.{pid.lower()}')
    if args.replay:
        with open(args.replay) as f:
            data = json.load(f)
        case = data.get('case', data)
        if case.get('kind') == 'wjob':
            from . import dyn
            msg = dyn.replay_wjob(mod, case)
        else:
            msg = mod.replay(case)
        if msg:
            print(f'REPLAY property={pid} still fails: {msg}')
            return 1
        print(f'REPLAY property={pid} passes')
        return 0
    from .report import Report

    rep = Report(pid, args.tier, seed)
    try:
        run_tier, run_seed = args.tier, seed
        if args.tier == 'thorough' and pid in THOROUGH_ON_QUICK_BOUNDS:
            # the deeper bounds written for these checks were not shown to finish in reasonable time (DESIGN.md 8.11): their
            # thorough command explores the quick bounds again with a second, disjoint seed set instead of risking a run that
            # never reports
            run_tier, run_seed = 'quick', seed + 1000
            rep.assume('thorough tier of this check = the quick bounds with a second seed set (seed + 1000); the larger bounds in the '
                       'code are not used by any registered command')
        rc = mod.run(rep, run_tier, run_seed)
        # the replay path is part of the machinery: every sample case recorded in the evidence is pushed through
        # replay() (its verdict is ignored here - only a crash of the replay code matters)
        for smp in rep.samples:
            if isinstance(smp, dict) and 'kind' in smp:
                mod.replay(json.loads(json.dumps(smp)))
        return rc
    except SystemExit:
        raise
    except BaseException:
        traceback.print_exc()
        print(f'INTERNAL: check {pid} crashed (harness error, not a property verdict)', file=sys.stderr)
        return 2


if __name__ == '__main__':
    sys.exit(main())

"""E2: ChoiceRng -- a scripted stand-in for numpy.random.Generator, plus the stateless explorer
of the choice tree and the recording proxy used for the conformance replay against numpy.

A *script* is a list of outcome indices, one per elementary pick.  Elementary picks:
  choice(n)                        -> 1 pick among n
  choice(n|seq, size=k, replace=False) -> k successive picks among the remaining items
  integers(low, high, endpoint)    -> 1 pick among the range
  shuffle(list)                    -> len-1 successive picks among the remaining items (pick 0 = identity)
  random(shape)                    -> no pick; array filled by `random_fill` (or a queued array when replaying)
Every stub first calls the same method on a hidden real Generator so that argument validation
raises numpy's own exception and the return value has numpy's type and shape.
"""
import numpy as np


class UnsupportedRngCall(BaseException):
    """the code under test used a generator feature the scripted model does not cover: this is a limit of the harness, never
    a verdict about the code - derives from BaseException so that no `except Exception` can turn it into a violation"""


class ScriptDivergence(Exception):
    """replaying a recorded prefix met a pick with fewer outcomes than the scripted index"""


_SHARED_REAL = np.random.default_rng(0)


class ChoiceRng:
    def __init__(self, script=(), random_fill=0.5, random_queue=None):
        self.script = list(script)
        self.log = []  # (n_outcomes, chosen)
        self.calls = []  # method names, for draw counting
        self._real = _SHARED_REAL  # only used for argument validation / result templates
        self.random_fill = random_fill
        self.random_queue = list(random_queue) if random_queue is not None else None
        self.random_calls = 0

    # -- core ---------------------------------------------------------------
    def _pick(self, n):
        n = int(n)
        i = len(self.log)
        c = self.script[i] if i < len(self.script) else 0
        if not 0 <= c < n:
            raise ScriptDivergence(f'pick {i}: scripted outcome {c} not in range({n})')
        self.log.append((n, c))
        return c

    @property
    def choices(self):
        return [c for _, c in self.log]

    @property
    def deviations(self):
        return sum(1 for _, c in self.log if c)

    # -- numpy.random.Generator surface used by the library -----------------------
    def choice(self, a, size=None, replace=True, p=None, axis=0, shuffle=True):
        if p is not None or axis != 0:
            raise UnsupportedRngCall('choice with p/axis')
        self.calls.append('choice')
        real = self._real.choice(a, size=size, replace=replace)  # validation + result template
        pop = int(a) if np.ndim(a) == 0 else len(a)
        items = None if np.ndim(a) == 0 else list(a)
        if size is None:
            i = self._pick(pop)
            if items is None:
                return type(real)(i) if isinstance(real, np.generic) else i
            return items[i]
        if not isinstance(size, (int, np.integer)):
            raise UnsupportedRngCall('choice with tuple size')
        k = int(size)
        if replace:
            idx = [self._pick(pop) for _ in range(k)]
        else:
            remaining = list(range(pop))
            idx = []
            for _ in range(k):
                j = self._pick(len(remaining))
                idx.append(remaining.pop(j))
        if items is None:
            return np.array(idx, dtype=real.dtype).reshape(real.shape)
        out = np.empty(len(idx), dtype=real.dtype)
        for t, j in enumerate(idx):
            out[t] = items[j]
        return out.reshape(real.shape)

    def integers(self, low, high=None, size=None, dtype=np.int64, endpoint=False):
        self.calls.append('integers')
        if size is not None:
            raise UnsupportedRngCall('integers with size')
        real = self._real.integers(low, high, size=size, dtype=dtype, endpoint=endpoint)
        if high is None:
            lo, hi = 0, low
        else:
            lo, hi = low, high
        if np.ndim(real) > 0:
            # vectorised bounds: one independent pick per element (row-major)
            los = np.broadcast_to(np.asarray(lo), np.shape(real)).ravel()
            his = np.broadcast_to(np.asarray(hi), np.shape(real)).ravel()
            vals = [int(a) + self._pick(int(b) - int(a) + (1 if endpoint else 0)) for a, b in zip(los, his)]
            return np.array(vals, dtype=real.dtype).reshape(np.shape(real))
        lo, hi = int(lo), int(hi)
        n = hi - lo + (1 if endpoint else 0)
        return type(real)(lo + self._pick(n))

    def shuffle(self, x, axis=0):
        self.calls.append('shuffle')
        if not isinstance(x, list):
            raise UnsupportedRngCall('shuffle of non-list')
        remaining = list(x)
        out = []
        while len(remaining) > 1:
            out.append(remaining.pop(self._pick(len(remaining))))
        out.extend(remaining)
        x[:] = out

    def random(self, size=None, dtype=np.float64, out=None):
        self.calls.append('random')
        self.random_calls += 1
        real = self._real.random(size)
        if self.random_queue is not None:
            if not self.random_queue:
                raise ScriptDivergence('random() queue exhausted')
            arr = np.asarray(self.random_queue.pop(0), dtype=float)
            if np.shape(arr) != np.shape(real):
                raise ScriptDivergence('random() shape differs from recorded')
            return arr if np.ndim(real) else float(arr)
        if np.ndim(real) == 0:
            return float(self.random_fill)
        return np.full(np.shape(real), float(self.random_fill))

    def __getattr__(self, name):
        # any other Generator method: the model does not cover it
        if name.startswith('__'):
            raise AttributeError(name)
        raise UnsupportedRngCall(name)


class RecordingRng:
    """Wraps a real Generator; answers with numpy's own draws and records the equivalent script."""

    def __init__(self, seed):
        self._real = np.random.default_rng(seed)
        self.script = []
        self.random_arrays = []

    def choice(self, a, size=None, replace=True, p=None, axis=0, shuffle=True):
        if p is not None or axis != 0:
            raise UnsupportedRngCall('choice with p/axis')
        pop = int(a) if np.ndim(a) == 0 else len(a)
        items = None if np.ndim(a) == 0 else list(a)
        idx = self._real.choice(pop, size=size, replace=replace)
        if size is None:
            self.script.append(int(idx))
            return idx if items is None else items[int(idx)]
        flat = [int(i) for i in np.ravel(idx)]
        if replace:
            self.script.extend(flat)
        else:
            remaining = list(range(pop))
            for i in flat:
                j = remaining.index(i)
                self.script.append(j)
                remaining.pop(j)
        if items is None:
            return idx
        out = np.empty(len(flat), dtype=np.asarray(a).dtype)
        for t, j in enumerate(flat):
            out[t] = items[j]
        return out

    def integers(self, low, high=None, size=None, dtype=np.int64, endpoint=False):
        if size is not None:
            raise UnsupportedRngCall('integers with size')
        v = self._real.integers(low, high, size=size, dtype=dtype, endpoint=endpoint)
        if np.ndim(v) > 0:
            los = np.broadcast_to(np.asarray(0 if high is None else low), np.shape(v)).ravel()
            self.script.extend(int(x) - int(a) for x, a in zip(np.ravel(v), los))
            return v
        lo = 0 if high is None else int(low)
        self.script.append(int(v) - lo)
        return v

    def shuffle(self, x, axis=0):
        if not isinstance(x, list):
            raise UnsupportedRngCall('shuffle of non-list')
        perm = list(range(len(x)))
        self._real.shuffle(perm)
        remaining = list(range(len(x)))
        for i in perm[:-1] if perm else []:
            j = remaining.index(i)
            self.script.append(j)
            remaining.pop(j)
        x[:] = [x[i] for i in perm]

    def random(self, size=None, dtype=np.float64, out=None):
        v = self._real.random(size)
        self.random_arrays.append(np.array(v, copy=True))
        return v

    def __getattr__(self, name):
        if name.startswith('__'):
            raise AttributeError(name)
        raise UnsupportedRngCall(name)


def explore(run, dev_bound=None, max_runs=None, random_fill=0.5):
    """Stateless exploration of the choice tree of `run(rng)`.

    Yields (choices, result, rng) for every complete resolution of the picks `run` makes
    (every resolution with at most `dev_bound` non-default answers when a bound is given).
    `run` must be deterministic given the script.  Stops after max_runs (caller must report the cap).
    """
    stack = [[]]
    n = 0
    while stack:
        prefix = stack.pop()
        rng = ChoiceRng(prefix, random_fill=random_fill)
        result = run(rng)
        choices = rng.choices
        if choices[: len(prefix)] != prefix:
            raise ScriptDivergence('replayed prefix was not consumed identically')
        yield choices, result, rng
        n += 1
        if max_runs is not None and n >= max_runs:
            explore.capped = bool(stack)
            return
        base_dev = sum(1 for c in prefix if c)
        if dev_bound is not None and base_dev >= dev_bound:
            continue
        for i in range(len(rng.log) - 1, len(prefix) - 1, -1):
            nout = rng.log[i][0]
            for alt in range(nout - 1, 0, -1):
                stack.append(choices[:i] + [alt])
    explore.capped = False


explore.capped = False


def count_outcomes(run, dev_bound=None, max_runs=None):
    n = 0
    for _ in explore(run, dev_bound, max_runs):
        n += 1
    return n


def selftest(seeds=range(25)):
    """Conformance of the recording proxy + ChoiceRng against numpy's Generator. Returns #replays."""
    from gym_gridverse import rng as gvrng

    def program(r):
        out = []
        out.append(int(r.choice(7)))
        out.append(int(r.integers(2, 9)))
        out.append(int(r.integers(3, 5, endpoint=True)))
        out.append([int(v) for v in r.choice(6, size=3, replace=False)])
        out.append(list(r.choice(['a', 'b', 'c', 'd'], size=2, replace=False)))
        lst = list(range(6))
        r.shuffle(lst)
        out.append(lst)
        out.append(gvrng.choice(r, ['x', 'y', 'z']))
        out.append(gvrng.choices(r, [10, 20, 30, 40], size=2, replace=False))
        out.append(gvrng.shuffle(r, ['p', 'q', 'r', 's', 't']))
        out.append([round(float(v), 12) for v in np.ravel(r.random((2, 2)))])
        return out

    n = 0
    for s in seeds:
        real = program(np.random.default_rng(s))
        rec = RecordingRng(s)
        got = program(rec)
        assert got == real, ('recording proxy differs from numpy', s, got, real)
        ch = ChoiceRng(rec.script, random_queue=rec.random_arrays)
        rep = program(ch)
        assert rep == real, ('ChoiceRng replay differs from numpy', s, rep, real)
        assert ch.choices == rec.script
        n += 1
    # exceptions are numpy's
    for bad in (lambda r: r.choice(0), lambda r: r.integers(3, 3), lambda r: r.choice(3, size=5, replace=False),
                lambda r: r.choice(3, size=-1, replace=False)):
        for mk_ in (lambda: ChoiceRng(), lambda: RecordingRng(0)):
            try:
                bad(mk_())
            except ValueError:
                pass
            else:
                raise AssertionError('expected ValueError')
    # explorer enumerates a known tree completely: choice(3) then integers(0,2) => 6 leaves
    leaves = sorted(tuple(c) for c, _, _ in explore(lambda r: (r.choice(3), r.integers(0, 2))))
    assert leaves == [(a, b) for a in range(3) for b in range(2)], leaves
    perms = {tuple(res) for _, res, _ in explore(lambda r: gvrng.shuffle(r, [1, 2, 3, 4]))}
    assert len(perms) == 24
    subs = {tuple(int(v) for v in res) for _, res, _ in explore(lambda r: r.choice(5, size=2, replace=False))}
    assert len(subs) == 20
    d1 = sum(1 for _ in explore(lambda r: (r.choice(3), r.choice(3), r.choice(3)), dev_bound=1))
    assert d1 == 1 + 3 * 2, d1
    return n

"""Runs in a fresh interpreter with the PYTHONHASHSEED chosen by the parent: prints trajectory digests as JSON.
usage: python -m mc.hashworker <seed0,seed1,..> <config> [<config> ...]"""
import json
import sys


def main():
    from . import boot

    boot.boot()
    from gym_gridverse.action import Action

    from . import envs

    seeds = [int(s) for s in sys.argv[1].split(',')]
    out = {}
    for name in sys.argv[2:]:
        for sd in seeds:
            env = envs.fresh(name, sd)
            acts = list(env.action_space.actions)
            seqs = [[acts[(i + j) % len(acts)] for j in range(6)] for i in range(3)]
            for si, seq in enumerate(seqs):
                out[f'{name}|{sd}|{si}'] = envs.digest(envs.run_actions(env, seq))
    print('DIGESTS ' + json.dumps(out, sort_keys=True))


if __name__ == '__main__':
    main()

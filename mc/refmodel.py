"""Reference models (oracles).  Deliberately naive; operate on descriptors only and never call
the function they judge.  Abstract state = (rows, y, x, heading, held) as produced by desc.sdesc.

Conventions (DESIGN appendix A): y grows downward, x rightward.
"""
import math
from collections import deque

from .desc import FLOOR, NONE, HIDDEN

FWD = {'F': (-1, 0), 'R': (0, 1), 'B': (1, 0), 'L': (0, -1)}
RIGHT = {'F': (0, 1), 'R': (1, 0), 'B': (0, -1), 'L': (-1, 0)}
TURN_LEFT = {'F': 'L', 'L': 'B', 'B': 'R', 'R': 'F'}
TURN_RIGHT = {v: k for k, v in TURN_LEFT.items()}
CW = {'F': 'R', 'R': 'B', 'B': 'L', 'L': 'F'}  # world rotation by a clockwise quarter turn

ACTIONS = [
    'MOVE_FORWARD',
    'MOVE_BACKWARD',
    'MOVE_LEFT',
    'MOVE_RIGHT',
    'TURN_LEFT',
    'TURN_RIGHT',
    'ACTUATE',
    'PICK_N_DROP',
]
MOVES = ACTIONS[:4]


def blocks_move(d):
    t, s = d[0], d[1]
    return t in ('Wall', 'Box') or (t == 'Door' and s != 0)


def blocks_vision(d):
    t, s = d[0], d[1]
    return t in ('Wall', 'Hidden', 'NoneGridObject') or (t == 'Door' and s != 0)


CUSTOM = {}  # user-defined (harness-registered) type name -> {'holdable': bool, 'blocks_move': bool, 'base': library type name | None}


def base_type(d):
    """the library type a descriptor's type is (a subclass of), or its own name"""
    return CUSTOM.get(d[0], {}).get('base') or d[0]


def holdable(d):
    return d[0] == 'Key' or bool(CUSTOM.get(d[0], {}).get('holdable'))


def shape(rows):
    return len(rows), len(rows[0])


def inside(rows, p):
    h, w = shape(rows)
    return 0 <= p[0] < h and 0 <= p[1] < w


def move_vec(h, action):
    f, r = FWD[h], RIGHT[h]
    return {
        'MOVE_FORWARD': f,
        'MOVE_BACKWARD': (-f[0], -f[1]),
        'MOVE_RIGHT': r,
        'MOVE_LEFT': (-r[0], -r[1]),
    }[action]


def front(y, x, h):
    return (y + FWD[h][0], x + FWD[h][1])


def _set(rows, p, d):
    rows = [list(r) for r in rows]
    rows[p[0]][p[1]] = d
    return tuple(tuple(r) for r in rows)


# ---------------------------------------------------------------- deterministic dynamics
def ref_move_agent(s, a):
    rows, y, x, h, held = s
    if a not in MOVES:
        return s
    v = move_vec(h, a)
    t = (y + v[0], x + v[1])
    if inside(rows, t) and not blocks_move(rows[t[0]][t[1]]):
        return (rows, t[0], t[1], h, held)
    return s


def ref_turn_agent(s, a):
    rows, y, x, h, held = s
    if a == 'TURN_LEFT':
        return (rows, y, x, TURN_LEFT[h], held)
    if a == 'TURN_RIGHT':
        return (rows, y, x, TURN_RIGHT[h], held)
    return s


def ref_actuate_door(s, a):
    rows, y, x, h, held = s
    if a != 'ACTUATE':
        return s
    p = front(y, x, h)
    if not inside(rows, p):
        return s
    d = rows[p[0]][p[1]]
    if d[0] != 'Door':
        return s
    if d[1] == 1 or (d[1] == 2 and held[0] == 'Key' and held[2] == d[2]):
        return (_set(rows, p, ('Door', 0, d[2], None)), y, x, h, held)
    return s


def ref_actuate_box(s, a):
    rows, y, x, h, held = s
    if a != 'ACTUATE':
        return s
    p = front(y, x, h)
    if not inside(rows, p):
        return s
    d = rows[p[0]][p[1]]
    if d[0] != 'Box':
        return s
    return (_set(rows, p, d[3]), y, x, h, held)


def ref_pickndrop(s, a):
    rows, y, x, h, held = s
    if a != 'PICK_N_DROP':
        return s
    p = front(y, x, h)
    if not inside(rows, p):
        return s
    o = rows[p[0]][p[1]]
    if not (o == FLOOR or holdable(o)):
        return s
    new_cell = held if held != NONE else FLOOR
    new_held = o if holdable(o) else NONE
    return (_set(rows, p, new_cell), y, x, h, new_held)


# ---------------------------------------------------------------- nondeterministic dynamics (sets of outcomes)
def ref_teleport(s, a):
    """set of allowed successor states"""
    rows, y, x, h, held = s
    here = rows[y][x]
    if base_type(here) != 'Telepod':
        return {s}
    partners = [
        (yy, xx)
        for yy, row in enumerate(rows)
        for xx, o in enumerate(row)
        if base_type(o) == 'Telepod' and o[2] == here[2] and (yy, xx) != (y, x)
    ]
    if not partners:
        return {s}
    return {(rows, yy, xx, h, held) for yy, xx in partners}


def obstacle_positions(rows):
    return [(y, x) for y, row in enumerate(rows) for x, o in enumerate(row) if o[0] == 'MovingObstacle']


def ref_move_obstacles_order(rows, order):
    """all final grids when the obstacles take their turns in `order` (list of initial cells);
    obstacle identity is tracked, so the result maps tuple(final cell of each obstacle, in `order`) -> grid"""
    results = {}

    def rec(grid, k, finals):
        if k == len(order):
            results[tuple(finals)] = grid
            return
        p = order[k]
        nbrs = [(p[0] - 1, p[1]), (p[0], p[1] + 1), (p[0] + 1, p[1]), (p[0], p[1] - 1)]
        free = [q for q in nbrs if inside(grid, q) and grid[q[0]][q[1]] == FLOOR]
        if not free:
            rec(grid, k + 1, finals + [p])
            return
        for q in free:
            g = _set(_set(grid, q, grid[p[0]][p[1]]), p, FLOOR)
            rec(g, k + 1, finals + [q])

    rec(rows, 0, [])
    return results


DET = {
    'move_agent': ref_move_agent,
    'turn_agent': ref_turn_agent,
    'actuate_door': ref_actuate_door,
    'actuate_box': ref_actuate_box,
    'pickndrop': ref_pickndrop,
}


def ref_chain_set(names, s, a):
    """set of allowed successors of a chain of built-in transition functions (any order of obstacle turns
    is allowed here: used as an over-approximation for membership tests, the exact obstacle oracle is in C11)"""
    import itertools

    cur = {s}
    for name in names:
        nxt = set()
        for st in cur:
            if name in DET:
                nxt.add(DET[name](st, a))
            elif name == 'teleport':
                nxt |= ref_teleport(st, a)
            elif name == 'move_obstacles':
                rows = st[0]
                obs = obstacle_positions(rows)
                for order in itertools.permutations(obs):
                    for g in ref_move_obstacles_order(rows, list(order)).values():
                        nxt.add((g,) + st[1:])
            else:
                raise KeyError(name)
        cur = nxt
    return cur


# ---------------------------------------------------------------- rewards / terminations
def nonfloor_count(rows):
    return sum(1 for r in rows for o in r if o[0] != "Floor")


def cell(s):
    return s[0][s[1]][s[2]]


def find_all(rows, tname):
    return [(y, x) for y, row in enumerate(rows) for x, o in enumerate(row) if o[0] == tname]


def manhattan(p, q):
    return abs(p[0] - q[0]) + abs(p[1] - q[1])


def euclid(p, q):
    return math.sqrt((p[0] - q[0]) ** 2 + (p[1] - q[1]) ** 2)


def bfs_dist(rows, src):
    """4-neighbour BFS from src over cells that do not block movement (src itself always at 0)"""
    h, w = shape(rows)
    dist = {src: 0}
    dq = deque([src])
    while dq:
        p = dq.popleft()
        for d in ((-1, 0), (1, 0), (0, -1), (0, 1)):
            q = (p[0] + d[0], p[1] + d[1])
            if 0 <= q[0] < h and 0 <= q[1] < w and q not in dist and not blocks_move(rows[q[0]][q[1]]):
                dist[q] = dist[p] + 1
                dq.append(q)
    return dist


def r_overlap(s, a, s2, tname, on=1.0, off=0.0):
    return on if cell(s2)[0] == tname else off


def r_bump_into_wall(s, a, s2, reward=-1.0):
    rows, y, x, h, _ = s
    if a not in MOVES:
        return 0.0
    v = move_vec(h, a)
    t = (y + v[0], x + v[1])
    return reward if inside(rows, t) and rows[t[0]][t[1]][0] == 'Wall' else 0.0


def _sign_reward(d0, d1, closer, further):
    return closer if d1 < d0 else further if d1 > d0 else 0.0


def r_getting_closer(s, a, s2, tname, dist=manhattan, closer=1.0, further=-1.0):
    (p0,) = find_all(s[0], tname)
    (p1,) = find_all(s2[0], tname)
    return _sign_reward(dist((s[1], s[2]), p0), dist((s2[1], s2[2]), p1), closer, further)


def r_getting_closer_sp(s, a, s2, tname, closer=1.0, further=-1.0):
    (p0,) = find_all(s[0], tname)
    (p1,) = find_all(s2[0], tname)
    d0 = bfs_dist(s[0], p0).get((s[1], s[2]), math.inf)
    d1 = bfs_dist(s2[0], p1).get((s2[1], s2[2]), math.inf)
    return _sign_reward(d0, d1, closer, further)


def r_proportional(s, a, s2, tname, dist=manhattan, unit=-1.0):
    (p1,) = find_all(s2[0], tname)
    return unit * dist((s2[1], s2[2]), p1)


def r_actuate_door(s, a, s2, r_open=1.0, r_close=-1.0):
    rows, y, x, h, _ = s
    if a != 'ACTUATE':
        return 0.0
    p = front(y, x, h)
    if not inside(rows, p) or not inside(s2[0], p):
        return 0.0
    d0, d1 = rows[p[0]][p[1]], s2[0][p[0]][p[1]]
    if d0[0] != 'Door' or d1[0] != 'Door':
        return 0.0
    if d0[1] != 0 and d1[1] == 0:
        return r_open
    if d0[1] == 0 and d1[1] != 0:
        return r_close
    return 0.0


def r_pickndrop(s, a, s2, tname, r_pick=1.0, r_drop=-1.0):
    h0, h1 = s[4][0] == tname, s2[4][0] == tname
    return r_pick if (not h0 and h1) else r_drop if (h0 and not h1) else 0.0


def r_reach_exit_memory(s, a, s2, good=1.0, bad=-1.0):
    c = cell(s2)
    if c[0] != 'Exit':
        return 0.0
    beacons = find_all(s2[0], 'Beacon')
    by, bx = beacons[0]  # row-major first
    return good if c[2] == s2[0][by][bx][2] else bad


def t_bump_into_wall(s, a, s2):
    return r_bump_into_wall(s, a, s2, reward=1.0) == 1.0


# ---------------------------------------------------------------- observation geometry
def world_cell(y, x, h, dy, dx):
    f, r = FWD[h], RIGHT[h]
    return (y - dy * f[0] + dx * r[0], x - dy * f[1] + dx * r[1])


def ref_view(s, area):
    """what `fully_transparent` must show: rows of descriptors (HIDDEN outside the grid)"""
    rows, y, x, h, held = s
    (ymin, ymax), (xmin, xmax) = area
    out = []
    for dy in range(ymin, ymax + 1):
        r = []
        for dx in range(xmin, xmax + 1):
            q = world_cell(y, x, h, dy, dx)
            r.append(rows[q[0]][q[1]] if inside(rows, q) else HIDDEN)
        out.append(tuple(r))
    return tuple(out)


def rotate_world_cw(s):
    """rotate grid and pose by a clockwise quarter turn using index arithmetic only"""
    rows, y, x, h, held = s
    H, W = shape(rows)
    new = [[None] * H for _ in range(W)]
    for yy in range(H):
        for xx in range(W):
            new[xx][H - 1 - yy] = rows[yy][xx]
    return (tuple(tuple(r) for r in new), x, H - 1 - y, CW[h], held)


# ---------------------------------------------------------------- membership
def ref_state_member(s, shape_, type_names):
    rows, y, x, h, held = s
    if shape(rows) != tuple(shape_):
        return False
    if any(o[0] not in type_names for row in rows for o in row):
        return False
    if not inside(rows, (y, x)):
        return False
    if held[0] not in set(type_names) | {'NoneGridObject'}:
        return False
    return True


def ref_obs_member(o, shape_, type_names, color_values):
    rows, y, x, h, held = o
    colors = set(color_values) | {0}
    if shape(rows) != tuple(shape_):
        return False
    for row in rows:
        for c in row:
            if c[0] not in set(type_names) | {'Hidden'}:
                return False
            if c[2] not in colors:
                return False
    if not (0 <= y < shape_[0] and 0 <= x < shape_[1]):
        return False
    if held[0] not in set(type_names) | {'NoneGridObject'}:
        return False
    if held[2] not in colors:
        return False
    return True

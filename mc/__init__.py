"""Bounded-exhaustive / explicit-state exploration machinery for gym-gridverse (see DESIGN.md)."""

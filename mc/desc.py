"""Canonical descriptors (deep fingerprints) of grid objects / states / observations, and builders.

Descriptor of an object: (type name, status index, colour value, content descriptor or None).
The library's own __eq__/__hash__ are not used: they ignore Box content.
"""
from gym_gridverse.agent import Agent
from gym_gridverse.geometry import Orientation, Position
from gym_gridverse.grid import Grid
from gym_gridverse.grid_object import (
    Beacon,
    Box,
    Color,
    Door,
    Exit,
    Floor,
    Hidden,
    Key,
    MovingObstacle,
    NoneGridObject,
    Telepod,
    Wall,
)
from gym_gridverse.observation import Observation
from gym_gridverse.state import State

COLORS = {c.value: c for c in Color}
ORI = {'F': Orientation.F, 'R': Orientation.R, 'B': Orientation.B, 'L': Orientation.L}
ORI_NAME = {v: k for k, v in ORI.items()}
HEADINGS = ['F', 'R', 'B', 'L']

FLOOR = ('Floor', 0, 0, None)
WALL = ('Wall', 0, 0, None)
NONE = ('NoneGridObject', 0, 0, None)
HIDDEN = ('Hidden', 0, 0, None)


_CONST = {Floor: FLOOR, Wall: WALL, NoneGridObject: NONE, Hidden: HIDDEN, MovingObstacle: ('MovingObstacle', 0, 0, None)}
_NAMES = {}


def odesc(o):
    t = type(o)
    c = _CONST.get(t)
    if c is not None:
        return c
    if t is Box:
        return ('Box', 0, 0, odesc(o.content))
    name = _NAMES.get(t)
    if name is None:
        name = _NAMES[t] = t.__name__
    return (name, int(o.state_index), int(o.color.value), odesc(o.content) if isinstance(o, Box) else None)


EXTRA_TYPES = {}  # type name -> constructor(colour) for harness-defined registered subclasses


def mk(d):
    """build a fresh grid object from a descriptor"""
    t, s, c, content = d
    if t in EXTRA_TYPES:
        return EXTRA_TYPES[t](COLORS[c])
    if t == 'Floor':
        return Floor()
    if t == 'Wall':
        return Wall()
    if t == 'Exit':
        return Exit(COLORS[c])
    if t == 'Door':
        return Door(Door.Status(s), COLORS[c])
    if t == 'Key':
        return Key(COLORS[c])
    if t == 'MovingObstacle':
        return MovingObstacle()
    if t == 'Box':
        return Box(mk(tuple(content)))
    if t == 'Telepod':
        return Telepod(COLORS[c])
    if t == 'Beacon':
        return Beacon(COLORS[c])
    if t == 'Hidden':
        return Hidden()
    if t == 'NoneGridObject':
        return NoneGridObject()
    raise ValueError(f'unknown descriptor {d!r}')


def tup(d):
    """JSON round trip turns tuples into lists: normalise back to nested tuples"""
    if isinstance(d, (list, tuple)):
        return tuple(tup(x) for x in d)
    if isinstance(d, dict):
        return {k: tup(v) for k, v in d.items()}
    return d


def gdesc(grid):
    return tuple(tuple(odesc(o) for o in row) for row in grid.objects)


def sdesc(s):
    """deep fingerprint of a State or Observation"""
    a = s.agent
    return (
        gdesc(s.grid),
        int(a.position.y),
        int(a.position.x),
        ORI_NAME[a.orientation],
        odesc(a.grid_object),
    )


def mkgrid(rows):
    return Grid([[mk(d) for d in row] for row in rows])


def mkstate(d):
    rows, y, x, h, held = d
    return State(mkgrid(rows), Agent(Position(y, x), ORI[h], mk(held)))


def mkobs(d):
    rows, y, x, h, held = d
    return Observation(mkgrid(rows), Agent(Position(y, x), ORI[h], mk(held)))


def show(d):
    """compact human-readable rendering of a state descriptor (for messages)"""
    rows, y, x, h, held = d

    def sym(o):
        t, s, c, content = o
        base = {
            'Floor': '.',
            'Wall': '#',
            'Exit': 'E',
            'Door': 'odl'[s] if 0 <= s < 3 else 'D',
            'Key': 'K',
            'MovingObstacle': 'M',
            'Box': 'X',
            'Telepod': 'T',
            'Beacon': 'b',
            'Hidden': '?',
            'NoneGridObject': '_',
        }.get(t, '*')
        return base + (str(c) if c else '') + ('(' + sym(content) + ')' if content else '')

    return ' / '.join(' '.join(sym(o) for o in row) for row in rows) + f' | agent=({y},{x}){h} held={sym(held)}'


_KNOWN = {'Grid': {'objects', 'shape', 'area'}, 'Agent': {'transform', 'grid_object'}, 'Transform': {'position', 'orientation'}}
_KNOWN_OBJ = {'state', 'color', 'content'}


def hidden_fp(st):
    """fingerprint of any instance attribute the implementation keeps on a state's objects beyond the fields the
    canonical descriptor covers (memoised hashes, lookup masks, ...).  Empty for the current library; when a change
    adds such an attribute, states that differ in it are different search states (they may have different futures)."""
    out = []
    for obj in (st.grid, st.agent, st.agent.transform):
        known = _KNOWN.get(type(obj).__name__, set())
        for k, v in sorted(getattr(obj, '__dict__', {}).items()):
            if k not in known:
                out.append((type(obj).__name__, k, repr(v)[:400]))
    for row in st.grid.objects:
        for o in row:
            for k, v in sorted(getattr(o, '__dict__', {}).items()):
                if k not in _KNOWN_OBJ:
                    out.append((type(o).__name__, k, repr(v)[:100]))
    return tuple(out)

"""Environment-level helpers for the E4 (operation sequence / interleaving) checks: C02, C04, C17, C20."""
import copy
import hashlib
import itertools
import json

from gym_gridverse.action import Action

from . import configs
from .desc import sdesc


def synthetic_data():
    """a composition in which every stochastic component draws: obstacles + teleport dynamics, stochastic observation"""
    return {
        'state_space': {'objects': ['Wall', 'Floor', 'Exit', 'MovingObstacle', 'Telepod'], 'colors': ['NONE', 'RED']},
        'action_space': ['MOVE_FORWARD', 'MOVE_BACKWARD', 'MOVE_LEFT', 'MOVE_RIGHT', 'TURN_LEFT', 'TURN_RIGHT'],
        'observation_space': {'objects': ['Wall', 'Floor', 'Exit', 'MovingObstacle', 'Telepod'], 'colors': ['NONE', 'RED']},
        'reset_function': {'name': 'dynamic_obstacles', 'shape': [5, 6], 'num_obstacles': 2, 'random_agent': True},
        'transition_functions': [{'name': 'move_agent'}, {'name': 'turn_agent'}, {'name': 'teleport'}, {'name': 'move_obstacles'}],
        'reward_functions': [{'name': 'reach_exit', 'reward_on': 5.0, 'reward_off': 0.0},
                             {'name': 'bump_moving_obstacle', 'reward': -1.0}, {'name': 'living_reward', 'reward': -0.05}],
        'observation_function': {'name': 'stochastic_raytracing', 'area': [[-2, 0], [-1, 1]]},
        'terminating_function': {'name': 'reach_exit'},
    }


def synthetic_det_data():
    """deterministic reset and dynamics, stochastic observation: re-seeding and resetting reproduces the SAME state, so
    the only thing the seed decides is the observation stream"""
    return {
        'state_space': {'objects': ['Wall', 'Floor', 'Exit'], 'colors': ['NONE']},
        'action_space': ['MOVE_FORWARD', 'MOVE_BACKWARD', 'MOVE_LEFT', 'MOVE_RIGHT', 'TURN_LEFT', 'TURN_RIGHT'],
        'observation_space': {'objects': ['Wall', 'Floor', 'Exit'], 'colors': ['NONE']},
        'reset_function': {'name': 'empty', 'shape': [5, 6]},
        'transition_functions': [{'name': 'move_agent'}, {'name': 'turn_agent'}],
        'reward_functions': [{'name': 'reach_exit', 'reward_on': 5.0, 'reward_off': 0.0}, {'name': 'living_reward', 'reward': -0.05}],
        'observation_function': {'name': 'stochastic_raytracing', 'area': [[-3, 0], [-2, 2]]},
        'terminating_function': {'name': 'reach_exit'},
    }


def data_of(name):
    if name == 'synthetic':
        return synthetic_data()
    if name == 'synthetic_det':
        return synthetic_det_data()
    paths = dict(configs.all_configs(include_examples=True))
    return configs.load(paths[name])


_data_cache = {}


def fresh(name_or_data, seed=None):
    if isinstance(name_or_data, str):
        if name_or_data not in _data_cache:
            _data_cache[name_or_data] = data_of(name_or_data)
        data = copy.deepcopy(_data_cache[name_or_data])
    else:
        data = copy.deepcopy(name_or_data)
    env = configs.build(data)
    if seed is not None:
        env.set_seed(seed)
    return env


_slots = {}


def slot(name, slot_id, seed, debug=True):
    """a cached environment instance (built once per process and slot), re-seeded and forgotten-state for reuse.
    Re-seeding replaces the generator, so the instance behaves as a newly seeded environment."""
    from gym_gridverse.debugging import reset_gv_debug

    key = (name, slot_id)
    if key not in _slots:
        reset_gv_debug(debug)
        _slots[key] = fresh(name)
        reset_gv_debug(True)
    env = _slots[key]
    env._state = None
    env._observation = None
    if seed is None:
        env._rng = None
    else:
        env.set_seed(seed)
    return env


def obs_of(env):
    return sdesc(env.observation)


def snapshot(env, reward=None, done=None):
    """observable state of an inner environment after an operation"""
    return (sdesc(env.state), sdesc(env.observation), None if reward is None else float(reward), None if done is None else bool(done))


def run_actions(env, actions, read_obs=True):
    """reset then step through the actions; returns the list of snapshots"""
    env.reset()
    out = [snapshot(env) if read_obs else (sdesc(env.state),)]
    for a in actions:
        r, d = env.step(a)
        out.append(snapshot(env, r, d) if read_obs else (sdesc(env.state), float(r), bool(d)))
    return out


def action_sequences(actions, depth):
    return itertools.product(actions, repeat=depth)


def digest(obj):
    return hashlib.blake2b(json.dumps(obj, sort_keys=True, default=str).encode(), digest_size=12).hexdigest()


def merges(lists):
    """every interleaving of several operation lists (each list keeps its internal order); yields lists of (owner, op)"""
    counts = [len(l) for l in lists]

    def rec(idx):
        if all(i == c for i, c in zip(idx, counts)):
            yield []
            return
        for k, (i, c) in enumerate(zip(idx, counts)):
            if i < c:
                nxt = list(idx)
                nxt[k] += 1
                for rest in rec(tuple(nxt)):
                    yield [(k, lists[k][i])] + rest

    return rec(tuple(0 for _ in lists))

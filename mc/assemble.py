"""Independent hand-assembler of an environment from a parsed configuration tree (oracle for C17).

Components are looked up by getattr on their module (not through the registries / factories), parameters are
bound from the tree by this code, parameters a component does not accept are dropped by comparing with its
signature; composition (chaining, summing, any/all) is written out here.
"""
import importlib
import inspect

from gym_gridverse import grid_object as GO
from gym_gridverse.action import Action
from gym_gridverse.envs import observation_functions as OF
from gym_gridverse.envs import reset_functions as RSF
from gym_gridverse.envs import reward_functions as RWF
from gym_gridverse.envs import terminating_functions as TMF
from gym_gridverse.envs import transition_functions as TRF
from gym_gridverse.envs import visibility_functions as VF
from gym_gridverse.envs.gridworld import GridWorld
from gym_gridverse.geometry import Area, Position, Shape
from gym_gridverse.grid_object import Color
from gym_gridverse.spaces import ActionSpace, ObservationSpace, StateSpace


class AssembleError(Exception):
    """the tree cannot describe an environment (missing required parameter, unknown name, malformed value)"""


PROTOCOL = {'state', 'action', 'next_state', 'rng', 'grid', 'position'}


def lookup(module, name):
    if not isinstance(name, str):
        raise AssembleError(f'name {name!r} is not a string')
    if ':' in name:
        modname, attr = name.split(':')
        try:
            module = importlib.import_module(modname)
        except ImportError as e:
            raise AssembleError(str(e))
        name = attr
    if name.startswith('_') or not hasattr(module, name):
        raise AssembleError(f'unknown component {name!r}')
    obj = getattr(module, name)
    return obj


def object_type(name):
    t = lookup(GO, name)
    if not (inspect.isclass(t) and issubclass(t, GO.GridObject)):
        raise AssembleError(f'{name!r} is not a grid-object type')
    return t


def colour(name):
    if not isinstance(name, str) or name not in Color.__members__:
        raise AssembleError(f'unknown colour {name!r}')
    return Color[name]


def pair_of_positive_ints(v, what):
    if not (isinstance(v, list) and len(v) == 2 and all(isinstance(x, int) and not isinstance(x, bool) and x > 0 for x in v)):
        raise AssembleError(f'malformed {what} {v!r}')
    return v


def unique_nonempty(v, what):
    if not (isinstance(v, list) and v and len(set(map(repr, v))) == len(v)):
        raise AssembleError(f'malformed {what} list {v!r}')
    return v


def convert_value(key, v):
    if key == 'shape':
        return Shape(*pair_of_positive_ints(v, 'shape'))
    if key == 'layout':
        return tuple(pair_of_positive_ints(v, 'layout'))
    if key == 'area':
        if not (isinstance(v, list) and len(v) == 2 and all(isinstance(p, list) and len(p) == 2 and all(isinstance(x, int) for x in p) for p in v)):
            raise AssembleError(f'malformed area {v!r}')
        return Area(tuple(v[0]), tuple(v[1]))
    if key == 'object_type':
        return object_type(v)
    if key == 'colors':
        return set(colour(c) for c in unique_nonempty(v, 'colour'))
    if key == 'distance_function':
        if v == 'manhattan':
            return Position.manhattan_distance
        if v == 'euclidean':
            return Position.euclidean_distance
        raise AssembleError(f'unknown distance function {v!r}')
    if key == 'transition_functions':
        return [transition(d) for d in v]
    if key == 'reward_functions':
        return [reward(d) for d in v]
    if key == 'terminating_functions':
        return [terminating(d) for d in v]
    if key == 'reward_function':
        return reward(v)
    if key == 'visibility_function':
        return visibility(v)
    return v


def bind(fn, spec):
    """keyword arguments for fn from the spec: accepted keys only; missing required -> AssembleError"""
    if not isinstance(spec, dict) or 'name' not in spec:
        raise AssembleError('component without a name')
    sig = inspect.signature(fn)
    accepted = [p for p in sig.parameters.values() if p.name not in PROTOCOL and p.kind in (p.POSITIONAL_OR_KEYWORD, p.KEYWORD_ONLY)]
    kw = {}
    for p in accepted:
        if p.name in spec:
            kw[p.name] = convert_value(p.name, spec[p.name])
        elif p.default is inspect.Parameter.empty:
            raise AssembleError(f'missing required parameter {p.name!r} of {spec["name"]}')
    # values of reserved keys are validated even when the component does not accept them (the schema does so)
    for k, v in spec.items():
        if k not in kw and k in ('shape', 'layout', 'object_type', 'colors'):
            convert_value(k, v)
    return kw


def reset(spec):
    fn = lookup(RSF, spec.get('name') if isinstance(spec, dict) else None)
    kw = bind(fn, spec)
    return lambda *, rng=None: fn(**kw, rng=rng)


def transition(spec):
    fn = lookup(TRF, spec.get('name') if isinstance(spec, dict) else None)
    kw = bind(fn, spec)
    return lambda state, action, *, rng=None: fn(state, action, **kw, rng=rng)


def reward(spec):
    fn = lookup(RWF, spec.get('name') if isinstance(spec, dict) else None)
    kw = bind(fn, spec)
    return lambda s, a, s2, *, rng=None: fn(s, a, s2, **kw, rng=rng)


def terminating(spec):
    fn = lookup(TMF, spec.get('name') if isinstance(spec, dict) else None)
    kw = bind(fn, spec)
    return lambda s, a, s2, *, rng=None: fn(s, a, s2, **kw, rng=rng)


def visibility(spec):
    fn = lookup(VF, spec.get('name') if isinstance(spec, dict) else None)
    kw = bind(fn, spec)
    return lambda grid, position, *, rng=None: fn(grid, position, **kw, rng=rng)


def observation(spec):
    fn = lookup(OF, spec.get('name') if isinstance(spec, dict) else None)
    kw = bind(fn, spec)
    return lambda state, *, rng=None: fn(state, **kw, rng=rng)


TOP_REQUIRED = ['state_space', 'observation_space', 'reset_function', 'transition_functions', 'reward_functions',
                'observation_function', 'terminating_function']
TOP_OPTIONAL = ['action_space']


def space_parts(d, what):
    if not (isinstance(d, dict) and set(d) == {'objects', 'colors'}):
        raise AssembleError(f'malformed {what}')
    objs = [object_type(n) for n in unique_nonempty(d['objects'], 'object')]
    cols = [colour(c) for c in unique_nonempty(d['colors'], 'colour')]
    return objs, cols


def assemble(data):
    if not isinstance(data, dict):
        raise AssembleError('configuration is not a mapping')
    for k in TOP_REQUIRED:
        if k not in data:
            raise AssembleError(f'missing section {k}')
    for k in data:
        if k not in TOP_REQUIRED + TOP_OPTIONAL:
            raise AssembleError(f'unknown section {k}')
    sobjs, scols = space_parts(data['state_space'], 'state_space')
    oobjs, ocols = space_parts(data['observation_space'], 'observation_space')
    if 'action_space' in data:
        names = unique_nonempty(data['action_space'], 'action')
        for n in names:
            if not isinstance(n, str) or n not in Action.__members__:
                raise AssembleError(f'unknown action {n!r}')
        actions = [Action[n] for n in names]
    else:
        actions = list(Action)
    reset_fn = reset(data['reset_function'])
    for key in ('transition_functions', 'reward_functions'):
        if not (isinstance(data[key], list) and data[key]):
            raise AssembleError(f'{key} must be a non-empty list')
    tfs = [transition(d) for d in data['transition_functions']]
    rfs = [reward(d) for d in data['reward_functions']]
    obs_fn = observation(data['observation_function'])
    term_fn = terminating(data['terminating_function'])

    def chain(state, action, *, rng=None):
        for f in tfs:
            f(state, action, rng=rng)

    def total(s, a, s2, *, rng=None):
        acc = 0
        for f in rfs:
            acc = acc + f(s, a, s2, rng=rng)
        return acc

    try:
        state = reset_fn()
        obs = obs_fn(state)
    except ValueError as e:
        # a component rejecting its parameter values (e.g. num_rivers=0) is a rejection of the configuration
        raise AssembleError(f'component rejected its parameters: {e}')
    return GridWorld(
        StateSpace(state.grid.shape, sobjs, scols), ActionSpace(actions), ObservationSpace(obs.grid.shape, oobjs, ocols),
        reset_fn, chain, obs_fn, total, term_fn)

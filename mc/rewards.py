"""Reference table for built-in reward / termination components, keyed by registered name, with the same
keyword parameter names as the library (so YAML specs can be applied to both sides)."""
from gym_gridverse.envs.reward_functions import reward_function_registry as RF
from gym_gridverse.envs.terminating_functions import terminating_function_registry as TFN
from gym_gridverse.geometry import Position
from gym_gridverse.grid_object import grid_object_registry

from . import refmodel as R

DIST_REF = {'manhattan': R.manhattan, 'euclidean': R.euclid}
DIST_REAL = {'manhattan': Position.manhattan_distance, 'euclidean': Position.euclidean_distance}


def _d(kw):
    return DIST_REF[kw.get('distance_function', 'manhattan')]


REWARD_REF = {
    'overlap': lambda s, a, s2, **kw: R.r_overlap(s, a, s2, kw['object_type'], kw.get('reward_on', 1.0), kw.get('reward_off', 0.0)),
    'living_reward': lambda s, a, s2, **kw: kw.get('reward', -1.0),
    'reach_exit': lambda s, a, s2, **kw: R.r_overlap(s, a, s2, 'Exit', kw.get('reward_on', 1.0), kw.get('reward_off', 0.0)),
    'bump_moving_obstacle': lambda s, a, s2, **kw: R.r_overlap(s, a, s2, 'MovingObstacle', kw.get('reward', -1.0), 0.0),
    'proportional_to_distance': lambda s, a, s2, **kw: R.r_proportional(
        s, a, s2, kw['object_type'], _d(kw), kw.get('reward_per_unit_distance', -1.0)),
    'getting_closer': lambda s, a, s2, **kw: R.r_getting_closer(
        s, a, s2, kw['object_type'], _d(kw), kw.get('reward_closer', 1.0), kw.get('reward_further', -1.0)),
    'getting_closer_shortest_path': lambda s, a, s2, **kw: R.r_getting_closer_sp(
        s, a, s2, kw['object_type'], kw.get('reward_closer', 1.0), kw.get('reward_further', -1.0)),
    'bump_into_wall': lambda s, a, s2, **kw: R.r_bump_into_wall(s, a, s2, kw.get('reward', -1.0)),
    'actuate_door': lambda s, a, s2, **kw: R.r_actuate_door(s, a, s2, kw.get('reward_open', 1.0), kw.get('reward_close', -1.0)),
    'pickndrop': lambda s, a, s2, **kw: R.r_pickndrop(
        s, a, s2, kw['object_type'], kw.get('reward_pick', 1.0), kw.get('reward_drop', -1.0)),
    'reach_exit_memory': lambda s, a, s2, **kw: R.r_reach_exit_memory(s, a, s2, kw.get('reward_good', 1.0), kw.get('reward_bad', -1.0)),
}

TERM_REF = {
    'overlap': lambda s, a, s2, **kw: R.cell(s2)[0] == kw['object_type'],
    'reach_exit': lambda s, a, s2, **kw: R.cell(s2)[0] == 'Exit',
    'bump_moving_obstacle': lambda s, a, s2, **kw: R.cell(s2)[0] == 'MovingObstacle',
    'bump_into_wall': lambda s, a, s2, **kw: R.t_bump_into_wall(s, a, s2),
}


def precondition(name, kw, s, s2):
    """documented preconditions: exactly one target object (distance rewards), a beacon (memory reward)"""
    if name in ('getting_closer', 'getting_closer_shortest_path'):
        t = kw['object_type']
        return len(R.find_all(s[0], t)) == 1 and len(R.find_all(s2[0], t)) == 1
    if name == 'proportional_to_distance':
        return len(R.find_all(s2[0], kw['object_type'])) == 1
    if name == 'reach_exit_memory':
        return len(R.find_all(s2[0], 'Beacon')) >= 1
    return True


def real_kwargs(kw):
    """translate a spec's parameters (strings) into what the real function takes"""
    out = dict(kw)
    if 'object_type' in out:
        out['object_type'] = grid_object_registry.from_name(out['object_type'])
    if 'distance_function' in out:
        out['distance_function'] = DIST_REAL[out['distance_function']]
    return out


def ref_reward_spec(specs):
    """reference for a YAML reward list (sum of parts), returns fn(s,a,s2) -> (total, parts) or None if a precondition fails"""

    def fn(s, a, s2):
        parts = []
        for sp in specs:
            kw = {k: v for k, v in sp.items() if k != 'name'}
            if not precondition(sp['name'], kw, s, s2):
                return None
            parts.append(REWARD_REF[sp['name']](s, a, s2, **kw))
        return sum(parts), parts

    return fn


def ref_term_spec(spec):
    def fn(s, a, s2):
        name = spec['name']
        if name in ('reduce_any', 'reduce_all'):
            vals = [ref_term_spec(sub)(s, a, s2) for sub in spec['terminating_functions']]
            return any(vals) if name == 'reduce_any' else all(vals)
        kw = {k: v for k, v in spec.items() if k != 'name'}
        return TERM_REF[name](s, a, s2, **kw)

    return fn

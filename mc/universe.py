"""E1: small-scope universe enumerator (deviation-bounded: at most k non-floor cells)."""
import itertools

from .desc import FLOOR, WALL, NONE, HEADINGS

SHAPES_SMALL = [(1, 1), (1, 2), (2, 1), (1, 3), (3, 1), (2, 2), (2, 3), (3, 2), (3, 3)]
SHAPES_MID = SHAPES_SMALL + [(3, 4), (4, 3), (4, 4)]

C1, C2 = 1, 4  # RED, YELLOW


def exit_(c=0):
    return ('Exit', 0, c, None)


def door(status, c):
    return ('Door', status, c, None)


def key(c):
    return ('Key', 0, c, None)


def telepod(c):
    return ('Telepod', 0, c, None)


def beacon(c):
    return ('Beacon', 0, c, None)


OBST = ('MovingObstacle', 0, 0, None)


def box(content):
    return ('Box', 0, 0, content)


def sigma_full(colors=(C1, C2)):
    syms = [WALL, exit_(0), exit_(colors[0]), OBST, box(FLOOR), box(key(colors[0])), box(box(key(colors[0])))]
    for c in colors:
        syms += [door(0, c), door(1, c), door(2, c), key(c), telepod(c), beacon(c)]
    return syms


def sigma_reduced(c=C1, c2=C2):
    return [WALL, exit_(0), OBST, key(c), door(0, c), door(2, c), door(1, c2), box(key(c)), telepod(c)]


HELD_FULL = [NONE, key(C1), key(C2), WALL, beacon(C1)]
HELD_SMALL = [NONE, key(C1), key(C2), WALL]


def grids(shape, sigma, k):
    """all grids of `shape` with at most k non-floor cells over alphabet sigma (rows of descriptors), simplest first"""
    h, w = shape
    cells = [(y, x) for y in range(h) for x in range(w)]
    for j in range(0, min(k, len(cells)) + 1):
        for where in itertools.combinations(cells, j):
            for what in itertools.product(sigma, repeat=j):
                rows = [[FLOOR] * w for _ in range(h)]
                for (y, x), d in zip(where, what):
                    rows[y][x] = d
                yield tuple(tuple(r) for r in rows)


def all_grids(shape, sigma):
    """every grid of `shape` over alphabet sigma (sigma must include the default symbol if wanted)"""
    h, w = shape
    for what in itertools.product(sigma, repeat=h * w):
        yield tuple(tuple(what[y * w : (y + 1) * w]) for y in range(h))


def poses(shape):
    h, w = shape
    for y in range(h):
        for x in range(w):
            for hd in HEADINGS:
                yield y, x, hd


def states(shape, sigma, k, held_items=(NONE,)):
    for rows in grids(shape, sigma, k):
        for y, x, hd in poses(shape):
            for held in held_items:
                yield (rows, y, x, hd, held)


def count_grids(shape, nsigma, k):
    import math

    n = shape[0] * shape[1]
    return sum(math.comb(n, j) * nsigma**j for j in range(0, min(k, n) + 1))


# ---------------------------------------------------------------- labelled grids (every cell distinct)
def _labels():
    transparent = [FLOOR]
    for c in (1, 2, 3, 4):
        transparent += [key(c), telepod(c), beacon(c), exit_(c), door(0, c)]
    transparent += [exit_(0), OBST, box(FLOOR), box(key(1))]
    opaque = [WALL]
    for c in (1, 2, 3, 4):
        opaque += [door(1, c), door(2, c)]
    return transparent, opaque


LABELS_T, LABELS_O = _labels()


def labelled_grid(shape, opaque_cells=()):
    """grid whose cells all hold pairwise distinct descriptors; cells in opaque_cells get distinct opaque ones.
    Note Box content is ignored by the library's ==, so at most one Box-like label is used per kind."""
    h, w = shape
    t = [d for d in LABELS_T if d[0] != 'Box'] + [box(FLOOR)]
    o = list(LABELS_O)
    ti = oi = 0
    rows = []
    for y in range(h):
        r = []
        for x in range(w):
            if (y, x) in opaque_cells:
                r.append(o[oi])
                oi += 1
            else:
                r.append(t[ti])
                ti += 1
        rows.append(tuple(r))
    return tuple(rows)


def areas(ymins=(-3, -2, -1, 0), ymaxs=(0, 1, 2), xmins=(-3, -2, -1, 0), xmaxs=(0, 1, 2, 3)):
    out = []
    for a in ymins:
        for b in ymaxs:
            for c in xmins:
                for d in xmaxs:
                    out.append(((a, b), (c, d)))
    return out


SHIPPED_AREA = ((-6, 0), (-3, 3))

"""Shared helpers for the representation properties (C15 bounds, C16 faithfulness)."""
import itertools

from gym_gridverse.geometry import Shape
from gym_gridverse.grid_object import (Beacon, Box, Color, Door, Exit, Floor, Hidden, Key, MovingObstacle,
                                       NoneGridObject, Telepod, Wall)
from gym_gridverse.representations.observation_representations import make_observation_representation
from gym_gridverse.representations.state_representations import make_state_representation
from gym_gridverse.spaces import ObservationSpace, StateSpace

from .desc import FLOOR, HIDDEN, NONE

class VerifSubKey(Key):
    """a user-defined registered type derived from a registered type (module level: picklable)"""


class VerifSubExit(Exit):
    """a user-defined exit (module level: picklable)"""


def _plain_type(name):
    """a user-defined, colourless one-state cell type (module-level name: picklable)"""
    from gym_gridverse.grid_object import Color, GridObject

    def can_be_represented_in_state(cls):
        return True

    def num_states(cls):
        return 1

    def __repr__(self):
        return f'{name}()'

    cls = type(GridObject)(name, (GridObject,), {
        '__module__': __name__, '__qualname__': name, 'state_index': 0, 'color': Color.NONE, 'blocks_movement': False,
        'blocks_vision': False, 'holdable': True, 'can_be_represented_in_state': classmethod(can_be_represented_in_state),
        'num_states': classmethod(num_states), '__repr__': __repr__})
    return cls


PLAIN_NAMES = [f'VerifPlain{i}' for i in range(8)]
for _n in PLAIN_NAMES:
    globals()[_n] = _plain_type(_n)

class VerifSubTelepod(Telepod):
    """a user-defined telepod (module level: picklable)"""


from .desc import EXTRA_TYPES  # noqa: E402
from . import refmodel as _R  # noqa: E402

EXTRA_TYPES['VerifSubTelepod'] = VerifSubTelepod
_R.CUSTOM.update({'VerifSubKey': {'holdable': True, 'base': 'Key'}, 'VerifSubExit': {'base': 'Exit'}, 'VerifSubTelepod': {'base': 'Telepod'}})
_R.CUSTOM.update({_n: {'holdable': True, 'base': None} for _n in PLAIN_NAMES})

for _n in PLAIN_NAMES:
    EXTRA_TYPES[_n] = (lambda cls: (lambda colour: cls()))(globals()[_n])

EXTRA_TYPES['VerifSubKey'] = VerifSubKey
EXTRA_TYPES['VerifSubExit'] = VerifSubExit

TYPES = {**{_n: globals()[_n] for _n in PLAIN_NAMES}, 'VerifSubTelepod': VerifSubTelepod, 'VerifSubExit': VerifSubExit, 'VerifSubKey': VerifSubKey, 'Hidden': Hidden, 'NoneGridObject': NoneGridObject, 'Floor': Floor, 'Wall': Wall, 'Exit': Exit, 'Door': Door, 'Key': Key, 'MovingObstacle': MovingObstacle,
         'Box': Box, 'Telepod': Telepod, 'Beacon': Beacon}
TYPE_ORDER = [t for t in TYPES if t not in ('Hidden', 'NoneGridObject', 'VerifSubKey', 'VerifSubExit', 'VerifSubTelepod') and not t.startswith('VerifPlain')]
COLOURED = ('Exit', 'Door', 'Key', 'Telepod', 'Beacon', 'VerifSubKey', 'VerifSubExit', 'VerifSubTelepod')
REPS = ['default', 'no-overlap', 'compact']
SHIPPED_TYPE_SETS = [
    ('Wall', 'Floor', 'Exit'),
    ('Wall', 'Floor', 'Exit', 'MovingObstacle'),
    ('Wall', 'Floor', 'Exit', 'Door', 'Key'),
    ('Wall', 'Floor', 'Exit', 'Beacon'),
    ('Wall', 'Floor', 'Exit', 'Telepod'),
]


def objects_of(type_names, colour_values, box_contents=False):
    """every object descriptor a space with these types/colours admits (Box content fixed to Floor)"""
    cols = sorted(set(colour_values) | {0})
    out = []
    for t in type_names:
        if t == 'Door':
            out += [('Door', s, c, None) for s in range(3) for c in cols]
        elif t in COLOURED:
            out += [(t, 0, c, None) for c in cols]
        elif t == 'Box':
            out.append(('Box', 0, 0, FLOOR))
            if box_contents:
                out.append(('Box', 0, 0, ('Key', 0, 0, None)))
        elif t in ('Hidden', 'NoneGridObject'):
            continue  # listed explicitly in a space: admitted anyway (Hidden in observations, NoneGridObject in the hand)
        else:
            out.append((t, 0, 0, None))
    seen, uniq = set(), []
    for o in out:
        if o not in seen:
            seen.add(o)
            uniq.append(o)
    return uniq


def state_space(shape, type_names, colour_values):
    return StateSpace(Shape(*shape), [TYPES[t] for t in type_names], [Color(c) for c in colour_values])


def obs_space(shape, type_names, colour_values):
    return ObservationSpace(Shape(*shape), [TYPES[t] for t in type_names], [Color(c) for c in colour_values])


def fill(shape, d):
    return tuple(tuple(d for _ in range(shape[1])) for _ in range(shape[0]))


def with_cell(rows, p, d):
    rows = [list(r) for r in rows]
    rows[p[0]][p[1]] = d
    return tuple(tuple(r) for r in rows)


def state_members(shape, objs, devs=1, all_poses=True):
    """member states: default grid (first object) with <=devs cells replaced by each object; poses and held items are
    covered on the default grid and on the 1-deviation grids' first cell"""
    H, W = shape
    base = fill(shape, objs[0])
    cells = [(y, x) for y in range(H) for x in range(W)]
    # every object at every cell
    for c in cells:
        for o in objs:
            yield (with_cell(base, c, o), 0, 0, 'F', NONE)
    # every pose on the default grid
    for (y, x) in cells:
        for h in 'FRBL':
            yield (base, y, x, h, NONE)
    # every held item
    for o in objs:
        yield (base, H - 1, W - 1, 'L', o)
    if devs >= 2:
        for c1, c2 in itertools.combinations(cells, 2):
            for o1 in objs[1:]:
                for o2 in objs[1:]:
                    yield (with_cell(with_cell(base, c1, o1), c2, o2), c1[0], c1[1], 'R', NONE)


def obs_members(shape, objs, devs=1):
    """member observations as observation functions produce them: agent at the bottom-centre anchor facing FORWARD"""
    H, W = shape
    ay, ax = H - 1, W // 2
    if not objs:
        # a space that declares no cell types of its own: everything is Hidden, the hand is empty
        for y in range(H):
            for x in range(W):
                yield (fill(shape, HIDDEN), y, x, 'F', NONE)
        return
    gobjs = objs + [HIDDEN]
    base = fill(shape, objs[0])
    cells = [(y, x) for y in range(H) for x in range(W)]
    for c in cells:
        for o in gobjs:
            yield (with_cell(base, c, o), ay, ax, 'F', NONE)
    for o in objs:
        yield (base, ay, ax, 'F', o)
    yield (fill(shape, HIDDEN), ay, ax, 'F', NONE)
    # the observation space admits the agent at any cell of the view (the encoding carries the position, not the heading)
    for c in cells:
        if c != (ay, ax):
            yield (base, c[0], c[1], 'F', NONE)
    if devs >= 2:
        for c1, c2 in itertools.combinations(cells, 2):
            for o1 in gobjs[1:]:
                for o2 in gobjs[1:]:
                    yield (with_cell(with_cell(base, c1, o1), c2, o2), ay, ax, 'F', NONE)

"""Process bootstrap shared by every check.

* re-executes the interpreter under PYTHONHASHSEED=0 (unless the caller asks
  for a specific hash seed) so harness iteration order is reproducible;
* puts ${VERIF_REPO:-/repo} first on sys.path and asserts gym_gridverse is
  imported from there (checks always run the current working tree);
* installs the strict YAML-subset shim iff no real PyYAML is importable;
* silences gym's import banner / numpy deprecation chatter.
"""
import os
import sys
import warnings

VERIF = os.path.dirname(os.path.dirname(os.path.abspath(__file__)))
REPO = os.environ.get('VERIF_REPO', '/repo')
GUARD = 'GYM_GRIDVERSE_VERIF'


def ensure_hashseed(value='0', module='mc.run'):
    if os.environ.get('PYTHONHASHSEED') != value:
        env = dict(os.environ)
        env['PYTHONHASHSEED'] = value
        os.chdir(VERIF)
        os.execve(sys.executable, [sys.executable, '-W', 'ignore', '-m', module] + sys.argv[1:], env)


def _real_yaml_available():
    for p in sys.path:
        if not p or os.path.abspath(p) == os.path.abspath(REPO):
            continue
        if os.path.isfile(os.path.join(p, 'yaml', '__init__.py')) or os.path.isfile(
            os.path.join(p, 'yaml.py')
        ):
            return True
    return False


_booted = False


def boot():
    global _booted
    if _booted:
        return
    os.environ.setdefault(GUARD, '1')
    warnings.filterwarnings('ignore')
    os.environ.setdefault('PYTHONWARNINGS', 'ignore')
    sys.path[:] = [p for p in sys.path if os.path.abspath(p or '.') != os.path.abspath(REPO)]
    shim = os.path.join(VERIF, 'shims')
    if not _real_yaml_available() and shim not in sys.path:
        sys.path.insert(0, shim)
    sys.path.insert(0, REPO)
    examples = os.path.join(REPO, 'examples')
    if examples not in sys.path:
        sys.path.append(examples)
    # gym prints a banner on stderr at import time: swallow fd 2 while importing
    sys.stderr.flush()
    saved = os.dup(2)
    devnull = os.open(os.devnull, os.O_WRONLY)
    try:
        os.dup2(devnull, 2)
        import gym  # noqa: F401
        import gym_gridverse  # noqa: F401
    finally:
        sys.stderr.flush()
        os.dup2(saved, 2)
        os.close(saved)
        os.close(devnull)
    import gym_gridverse

    here = os.path.abspath(os.path.dirname(gym_gridverse.__file__))
    want = os.path.abspath(os.path.join(REPO, 'gym_gridverse'))
    if here != want:
        raise SystemExit(f'INTERNAL: gym_gridverse imported from {here}, expected {want}')
    warnings.filterwarnings('ignore')
    _booted = True

"""Strict loader for the YAML subset used by gym-gridverse's shipped configurations.

Used only when PyYAML is not installed (see mc/boot.py).  Supports: block
mappings, block sequences (of scalars or of mappings), nested flow sequences,
int/float/bool/null/string scalars, full-line and trailing comments.  Anything
else raises YAMLError -- it never guesses.
"""
import re

__all__ = ['safe_load', 'safe_dump', 'YAMLError', 'IS_VERIF_SHIM']
IS_VERIF_SHIM = True


class YAMLError(Exception):
    pass


_INT = re.compile(r'^[-+]?[0-9]+$')
_FLOAT = re.compile(r'^[-+]?([0-9]+\.[0-9]*|\.[0-9]+|[0-9]+)([eE][-+]?[0-9]+)?$')
_PLAIN = re.compile(r'^[A-Za-z_][A-Za-z0-9_.:\-]*$')
_KEY = re.compile(r'^([A-Za-z_][A-Za-z0-9_]*):(?:\s+(.*))?$')


def _scalar(tok):
    tok = tok.strip()
    if tok == '':
        raise YAMLError('empty scalar')
    if tok in ('true', 'True'):
        return True
    if tok in ('false', 'False'):
        return False
    if tok in ('null', '~'):
        return None
    if _INT.match(tok):
        return int(tok)
    if _FLOAT.match(tok):
        return float(tok)
    if (tok[0] == tok[-1] == '"' or tok[0] == tok[-1] == "'") and len(tok) >= 2:
        body = tok[1:-1]
        if '\\' in body or tok[0] in body:
            raise YAMLError(f'unsupported quoted scalar {tok!r}')
        return body
    if _PLAIN.match(tok) and not tok.endswith(':'):
        return tok
    raise YAMLError(f'unsupported scalar {tok!r}')


def _flow(text):
    """parse a flow sequence `[ a, [b, c] ]` (no flow mappings)."""
    pos = 0

    def ws():
        nonlocal pos
        while pos < len(text) and text[pos] in ' \t':
            pos += 1

    def seq():
        nonlocal pos
        assert text[pos] == '['
        pos += 1
        out = []
        ws()
        if pos < len(text) and text[pos] == ']':
            pos += 1
            return out
        while True:
            ws()
            if pos >= len(text):
                raise YAMLError('unterminated flow sequence')
            if text[pos] == '[':
                out.append(seq())
            elif text[pos] == '{':
                raise YAMLError('flow mappings unsupported')
            else:
                m = re.compile(r'[^,\[\]]+').match(text, pos)
                if not m:
                    raise YAMLError(f'bad flow item at {text[pos:]!r}')
                out.append(_scalar(m.group(0)))
                pos = m.end()
            ws()
            if pos >= len(text):
                raise YAMLError('unterminated flow sequence')
            if text[pos] == ',':
                pos += 1
                continue
            if text[pos] == ']':
                pos += 1
                return out
            raise YAMLError(f'bad flow sequence at {text[pos:]!r}')

    ws()
    value = seq()
    ws()
    if pos != len(text):
        raise YAMLError(f'trailing characters after flow sequence: {text[pos:]!r}')
    return value


def _value(tok):
    tok = tok.strip()
    if tok.startswith('['):
        return _flow(tok)
    if tok[:1] in '{&*!|>%@`':
        raise YAMLError(f'unsupported value {tok!r}')
    return _scalar(tok)


def _strip_comment(line):
    out = []
    quote = None
    for i, ch in enumerate(line):
        if quote:
            if ch == quote:
                quote = None
        elif ch in '"\'':
            quote = ch
        elif ch == '#' and (i == 0 or line[i - 1] in ' \t'):
            break
        out.append(ch)
    return ''.join(out).rstrip()


def _lines(text):
    res = []
    for raw in text.splitlines():
        if '\t' in raw[: len(raw) - len(raw.lstrip())]:
            raise YAMLError('tabs in indentation')
        line = _strip_comment(raw)
        if not line.strip():
            continue
        if line.strip() in ('---', '...'):
            raise YAMLError('document markers unsupported')
        res.append((len(line) - len(line.lstrip(' ')), line.strip()))
    return res


def _parse_block(lines, i, indent):
    """parse the block starting at lines[i] whose indentation is exactly `indent`."""
    if lines[i][1].startswith('- ') or lines[i][1] == '-':
        return _parse_seq(lines, i, indent)
    return _parse_map(lines, i, indent)


def _parse_map(lines, i, indent):
    out = {}
    while i < len(lines):
        ind, text = lines[i]
        if ind < indent:
            break
        if ind > indent:
            raise YAMLError(f'bad indentation at {text!r}')
        if text.startswith('- ') or text == '-':
            raise YAMLError(f'sequence item in mapping at {text!r}')
        m = _KEY.match(text)
        if not m:
            raise YAMLError(f'expected `key: value`, got {text!r}')
        key, rest = m.group(1), m.group(2)
        if key in out:
            raise YAMLError(f'duplicate key {key!r}')
        if rest is not None and rest.strip() != '':
            out[key] = _value(rest)
            i += 1
        else:
            i += 1
            if i >= len(lines) or lines[i][0] <= indent:
                raise YAMLError(f'key {key!r} has no value')
            out[key], i = _parse_block(lines, i, lines[i][0])
    return out, i


def _parse_seq(lines, i, indent):
    out = []
    while i < len(lines):
        ind, text = lines[i]
        if ind < indent:
            break
        if ind > indent:
            raise YAMLError(f'bad indentation at {text!r}')
        if not (text.startswith('- ') or text == '-'):
            raise YAMLError(f'expected sequence item, got {text!r}')
        body = text[1:].lstrip(' ')
        if body == '':
            raise YAMLError('empty sequence item unsupported')
        inner_indent = indent + (len(text) - len(body))
        if _KEY.match(body) and not body.startswith('['):
            # mapping item: first key on the dash line, others indented to it
            sub = [(inner_indent, body)]
            j = i + 1
            while j < len(lines) and lines[j][0] >= inner_indent:
                sub.append(lines[j])
                j += 1
            value, used = _parse_map(sub, 0, inner_indent)
            if used != len(sub):
                raise YAMLError(f'bad mapping item near {body!r}')
            out.append(value)
            i = j
        else:
            out.append(_value(body))
            i += 1
            if i < len(lines) and lines[i][0] > indent:
                raise YAMLError(f'unexpected indentation after scalar item {body!r}')
    return out, i


def safe_load(stream):
    text = stream.read() if hasattr(stream, 'read') else stream
    if isinstance(text, bytes):
        text = text.decode('utf-8')
    lines = _lines(text)
    if not lines:
        return None
    value, i = _parse_block(lines, 0, lines[0][0])
    if i != len(lines):
        raise YAMLError(f'trailing content at {lines[i][1]!r}')
    return value


def _dump_scalar(v):
    if v is True:
        return 'true'
    if v is False:
        return 'false'
    if v is None:
        return 'null'
    if isinstance(v, (int, float)):
        return repr(v)
    if isinstance(v, str):
        if _PLAIN.match(v) and v not in ('true', 'false', 'null', 'True', 'False'):
            return v
        return '"' + v + '"'
    raise YAMLError(f'cannot dump {v!r}')


def _dump_flow(v):
    if isinstance(v, list):
        return '[' + ', '.join(_dump_flow(x) for x in v) + ']'
    return _dump_scalar(v)


def _dump(v, indent, out):
    pad = ' ' * indent
    if isinstance(v, dict):
        for k, x in v.items():
            if isinstance(x, dict) or (isinstance(x, list) and x and all(isinstance(e, dict) for e in x)):
                out.append(f'{pad}{k}:')
                _dump(x, indent + 2, out)
            else:
                out.append(f'{pad}{k}: {_dump_flow(x)}')
    elif isinstance(v, list):
        for x in v:
            if isinstance(x, dict):
                sub = []
                _dump(x, indent + 2, sub)
                sub[0] = pad + '- ' + sub[0].lstrip(' ')
                out.extend(sub)
            else:
                out.append(f'{pad}- {_dump_flow(x)}')
    else:
        out.append(pad + _dump_scalar(v))


def safe_dump(data):
    out = []
    _dump(data, 0, out)
    return '\n'.join(out) + '\n'

#!/bin/sh
# tools/run_all.sh [quick|thorough]  -- run every claimed check once, print one line each
cd "$(dirname "$0")/.." || exit 2
TIER="${1:-quick}"
rc=0
for c in C01 C02 C03 C04 C05 C06 C07 C08 C09 C10 C11 C12 C13 C14 C15 C16 C17 C18 C19 C20; do
  out=$(./check $c --tier "$TIER" 2>&1); r=$?
  echo "$out" | grep -E "^\[C|^VIOLATION|^KNOWN|INTERNAL" | cut -c1-220
  [ $r -ne 0 ] && { echo "$c exit=$r"; rc=1; }
done
exit $rc

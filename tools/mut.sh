#!/bin/sh
# tools/mut.sh <patch.diff> <Cxx> [<Cyy> ...]   -- run checks against a scratch copy of /repo with the patch applied.
# Evidence / replays of these runs go to /var/tmp/gv-verif-out (never into /verif/evidence).
PATCH="$(realpath "$1")"; shift
SCRATCH="/var/tmp/gv-mut-$$"
rm -rf "$SCRATCH"; mkdir -p "$SCRATCH" /var/tmp/gv-verif-out/$$
(cd /repo && git ls-files -z | xargs -0 cp --parents -t "$SCRATCH") || exit 2
(cd "$SCRATCH" && patch -p1 -s < "$PATCH") || { echo "patch failed"; rm -rf "$SCRATCH"; exit 2; }
cd /verif
rc=0
for c in "$@"; do
  VERIF_REPO="$SCRATCH" VERIF_OUT=/var/tmp/gv-verif-out/$$ ./check "$c" --tier "${TIER:-quick}" > "/var/tmp/gv-verif-out/$c.$$.log" 2>&1
  r=$?
  echo "$c exit=$r $(grep -c '^VIOLATION' /var/tmp/gv-verif-out/$c.$$.log) violations; $(grep -m1 -A1 '^VIOLATION' /var/tmp/gv-verif-out/$c.$$.log | tail -1 | cut -c1-220)"
  [ $r -ne 0 ] && rc=1
done
rm -rf "$SCRATCH"
exit $rc

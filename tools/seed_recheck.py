#!/usr/bin/env python3
"""tools/seed_recheck.py <seed id> -- re-run the quick check of the property a stored seeded change breaks, against a scratch
copy of /repo with the patch applied, and update checks_run / caught_by in seeded/<id>/meta.json (validity is not re-checked)."""
import json
import os
import shutil
import subprocess
import sys
import time

sid = sys.argv[1]
d = os.path.join('/verif/seeded', sid)
meta = json.load(open(os.path.join(d, 'meta.json')))
c = meta['breaks']
scratch = f'/var/tmp/gv-recheck-{os.getpid()}'
out = f'/var/tmp/gv-verif-out/recheck-{sid}'
shutil.rmtree(scratch, ignore_errors=True)
os.makedirs(scratch)
os.makedirs(out, exist_ok=True)
subprocess.run('git ls-files -z | xargs -0 cp --parents -t ' + scratch, shell=True, cwd='/repo', check=True)
r = subprocess.run(f'patch -p1 -s < {os.path.join(d, "patch.diff")}', shell=True, cwd=scratch, capture_output=True, text=True)
if r.returncode:
    print(sid, 'PATCH FAILED')
    sys.exit(2)
t0 = time.time()
r = subprocess.run(['./check', c, '--tier', 'quick'], cwd='/verif', capture_output=True, text=True, env=dict(os.environ, VERIF_REPO=scratch, VERIF_OUT=out))
lines = r.stdout.splitlines()
first = ''
for i, l in enumerate(lines):
    if l.startswith('VIOLATION'):
        first = lines[i + 1].strip()[:300] if i + 1 < len(lines) else ''
        break
nv = sum(1 for l in lines if l.startswith('VIOLATION'))
meta['checks_run'][c] = {'exit': r.returncode, 'violations': nv, 'first': first, 'wall_s': round(time.time() - t0, 1), 'tier': 'quick',
                         'stderr_tail': (r.stdout[-200:] + r.stderr[-300:]) if not (r.returncode == 1 and nv > 0) else ''}
meta['caught_by'] = [k for k, v in meta['checks_run'].items() if v['exit'] == 1 and v.get('violations', 0) > 0]
json.dump(meta, open(os.path.join(d, 'meta.json'), 'w'), indent=1, sort_keys=True)
shutil.rmtree(scratch, ignore_errors=True)
shutil.rmtree(out, ignore_errors=True)
print(sid, c, 'exit', r.returncode, 'violations', nv, first[:100])

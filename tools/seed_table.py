#!/usr/bin/env python3
"""prints a markdown table of the seeded changes and which checks catch them (from seeded/*/meta.json)"""
import glob
import json
import os

rows = []
for f in sorted(glob.glob(os.path.join(os.path.dirname(__file__), '..', 'seeded', '*', 'meta.json'))):
    m = json.load(open(f))
    caught = ', '.join(m.get('caught_by', [])) or '**none**'
    missed = ', '.join(c for c, v in m.get('checks_run', {}).items() if v['exit'] == 0)
    rows.append(f"| {m['seed']} | {m.get('breaks', m.get('source_property', ''))} | {m.get('description', '')[:150]} | "
                f"{'yes' if m.get('valid') else 'NO'} | {caught} | {missed} |")
print('| seed | property | change (needs to manifest) | valid | caught by (quick) | run but silent |')
print('|---|---|---|---|---|---|')
print('\n'.join(rows))

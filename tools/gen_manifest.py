#!/usr/bin/env python3
"""Regenerates /verif/MANIFEST.json from the table below (keeps it valid at all times)."""
import json
import os

HERE = os.path.dirname(os.path.dirname(os.path.abspath(__file__)))

BASELINE_OFF = (
    'cd /repo && env -u GYM_GRIDVERSE_VERIF /venv/bin/python -m pytest -ra -q -p no:cacheprovider '
    '--timeout=900 --continue-on-collection-errors'
)

# pid -> (technique, level text, level note, design ref)
CHECKS = {}


def check(pid, technique, text, note, ref):
    CHECKS[pid] = dict(technique=technique, text=text, note=note, ref=ref)


exec(open(os.path.join(HERE, 'tools', 'manifest_table.py')).read())

props = [json.loads(l) for l in open(os.path.join(HERE, 'properties.jsonl'))]
ids = [p['id'] for p in props]

checks = []
na = []
for pid in ids:
    if pid in CHECKS and os.path.exists(os.path.join(HERE, 'mc', 'checks', pid.lower() + '.py')):
        c = CHECKS[pid]
        checks.append(
            {
                'property_id': pid,
                'quick_cmd': f'./check {pid} --tier quick',
                'thorough_cmd': f'./check {pid} --tier thorough',
                'evidence_file': f'/verif/evidence/{pid}.json',
                'replay_cmd_template': f'./check {pid} --replay {{path}}',
                'engine': 'mc',
                'level_claimed': {'category': 'model_checking', 'text': c['text'], 'design_ref': c['ref']},
                'level_note': c['note'],
                'technique': c['technique'],
            }
        )
    else:
        na.append({'property_id': pid, 'reason': 'check not built yet in this revision (planned: see DESIGN.md section 3); not claimed'})

manifest = {
    'version': 1,
    'setup_cmd': './setup.sh',
    'hooks': {
        'guard': 'GYM_GRIDVERSE_VERIF',
        'enable': 'no source hooks are needed: checks import /repo (or $VERIF_REPO) directly and replace the '
        'rng / module globals from outside; the guard variable is set by the harness but read by no repository code',
        'baseline_off_cmd': BASELINE_OFF,
        'source_commits': [],
        'add_only': True,
    },
    'engines': [
        {
            'name': 'mc',
            'path': '/verif/mc',
            'serves_properties': [c['property_id'] for c in checks],
            'kind_free_text': 'hand-written explicit-state / bounded-exhaustive explorer executing the real Python '
            'code: E1 small-scope universe enumerator, E2 scripted ChoiceRng with stateless choice-tree exploration '
            '(conformance-replayed against numpy.random.Generator), E3 breadth-first search over the real '
            'functional_step, E4 operation-sequence / interleaving enumerator; reference models in mc/refmodel.py',
        }
    ],
    'checks': checks,
    'notes': 'All checks are bounded exhaustive enumerations run on the implementation itself; bounds completed and '
    'caps hit are reported in each evidence file. Known findings: /verif/known_findings.json.',
    'not_applicable': na,
}
with open(os.path.join(HERE, 'MANIFEST.json'), 'w') as f:
    json.dump(manifest, f, indent=1)
print(f'{len(checks)} checks, {len(na)} not yet claimed')

check(
    'C18',
    'bounded exhaustive enumeration of algebraic law instances on the real geometry classes',
    'Every group/action/transform/area/grid law is evaluated on all orientation triples, all positions of a box '
    'plus extreme coordinates, all transform triples over the box, all areas with bounds in [-2,2] and labelled '
    'grids of all shapes up to 4x4; rotation results are compared with harness index arithmetic, not with the '
    'library tables.',
    'Coordinates are unbounded integers: the box and extremes are a bound, generalisation beyond it is an '
    'assumption (affine operations, no branching on coordinate values).',
    'DESIGN.md 3/C18',
)

check(
    'C18',
    'bounded exhaustive enumeration of algebraic law instances on the real geometry classes',
    'Every group/action/transform/area/grid law is evaluated on all orientation triples, all positions of a box '
    'plus extreme coordinates, all transform triples over the box, all areas with bounds in [-2,2] and labelled '
    'grids of all shapes up to 4x4; rotation results are compared with harness index arithmetic, not with the '
    'library tables.',
    'Coordinates are unbounded integers: the box and extremes are a bound, generalisation beyond it is an '
    'assumption (affine operations, no branching on coordinate values).',
    'DESIGN.md 3/C18',
)
check(
    'C08',
    'bounded exhaustive enumeration of states x actions x random outcomes against a reference kinematics model, plus BFS of reachable states of shipped configurations',
    'Every grid with at most k non-floor cells (k<=1 over the full 19-symbol alphabet, k=2 over a reduced one; all '
    'shapes up to 3x3, thorough up to 4x4) x every agent cell x heading x held item x all 8 actions x every built-in '
    'transition function, the 4 shipped chains and the full chain x every resolution of the random picks is executed '
    'on the real code and the resulting pose compared with a reference; the reachable graphs of the shipped '
    'configurations are searched breadth-first with the invariant "agent inside the grid on a non-blocking cell".',
    'Bounds: grid sizes, k, alphabet, the listed chains; reset outcomes complete or deviation-bounded as reported.',
    'DESIGN.md 3/C08',
)
check(
    'C09',
    'bounded exhaustive enumeration of states x actions x random outcomes with an inventory (multiset) oracle and a reference pick-and-drop model; BFS inventory invariants',
    'Same universe as C08 with held items: the multiset of non-floor objects plus the held item is compared before/after '
    'every execution (box opening accounted for), pick-and-drop is compared with its reference, scenery cells are '
    'compared cell by cell; key/door/exit/obstacle counts are invariants over every reachable state of the key-door, '
    'obstacle, teleport configurations.',
    'Bounds as reported in evidence; object alphabet = the 9 concrete types with 2 colours and nested boxes.',
    'DESIGN.md 3/C09',
)
check(
    'C10',
    'bounded exhaustive enumeration of door/box/held-item/pose/action combinations against the actuation table; inductive edge invariant over BFS of key-door configurations',
    'Every door status x colour, box content (nested), held item (none, key of each colour, non-key objects), agent '
    'pose relative to the door/box and action is executed through every built-in function and chain; every door/box '
    'cell is compared with the reference table. On every edge of the reachable graph of the key-door configurations '
    'a door status change must be a faced ACTUATE with a matching key; the agent is never beyond a non-open door.',
    'Bounds as reported; the history property is established inductively over explored edges from LOCKED initial doors.',
    'DESIGN.md 3/C10',
)
check(
    'C11',
    'complete enumeration of every random outcome (scripted ChoiceRng choice tree) per layout, compared as outcome SETS with an order-agnostic nondeterministic reference model; numpy conformance replay',
    'For every obstacle layout (<=3 obstacles, <=2 other cells, shapes up to 3x3 and 3x4/4x3) the set of final grids '
    'over all random resolutions (obstacle identity tracked) must equal what the rules allow: contained in the union '
    'over processing orders and containing all outcomes of at least one order. For every telepod layout (<=4 telepods, '
    '2 colours) and agent cell the outcome set equals the other same-coloured telepods; unpaired telepods do not move '
    'the agent and do not raise. Each layout is also replayed with real numpy seeds through a recording proxy.',
    'The scripted generator models choice/integers/shuffle/random only; bound to numpy by conformance replays.',
    'DESIGN.md 3/C11',
)
check(
    'C12',
    'bounded exhaustive enumeration of (state, action, next state) triples against per-component reference formulas; BFS edge oracle over shipped configurations',
    'Every built-in reward and termination component (default and non-default parameters, called directly and through '
    'factory(name, **kw)) is evaluated on every triple of (a) the E1 universe with next states produced by the real '
    'full chain under every random outcome and (b) all ordered pairs of a small state universe x all actions, and '
    'compared with an independent reference; determinism and no use of the rng argument are checked; reduce_sum / '
    'reduce_any / reduce_all over all subsets of <=3 parts equal the sum/any/all of the parts; on every explored edge '
    'of the shipped configurations the environment reward equals the sum of the reference components named in the '
    'YAML, done equals the reference termination and the exit reward is paid exactly when exit-termination fires.',
    'Documented preconditions honoured (exactly one target object for distance rewards, a beacon for the memory reward).',
    'DESIGN.md 3/C12',
)
check(
    'C01',
    'bounded exhaustive enumeration of states x actions x random outcomes through a real GridWorld with debug checks on; BFS of all reachable states of shipped configurations; single-fault mutation of space members',
    'Every state of the E1 universe (agent on every cell incl. edges facing outward, any held item, unpaired telepods, '
    'nested boxes) x all actions x every built-in transition function alone and the full chain x every random outcome is '
    'stepped through GridWorld.functional_step: no exception, next state in the reference state space, finite real '
    'reward, boolean termination (reduce_any and reduce_all), input unmodified; observations of all four observation '
    'functions lie in the declared observation space; actions outside a restricted action space (and non-actions) '
    'raise ValueError and change neither state nor generator; StateSpace/ObservationSpace.contains agree with a '
    'reference predicate on every universe state and all its single-fault mutants; every reachable state of the '
    'shipped configurations is searched breadth-first for exceptions and membership failures.',
    'Compositions limited to the stated alphabet of built-in components; custom components out of scope.',
    'DESIGN.md 3/C01',
)
check(
    'C03',
    'bounded exhaustive enumeration with deep-fingerprint / object-identity / differential-mutation oracles; exhaustive enumeration of cache histories (operation sequences) against cold answers',
    'For every universe state, action, chain and outcome: the input fingerprint is unchanged, ids of all mutable '
    'components of state and next state are disjoint, scrambling either afterwards leaves the other unchanged, every '
    'reward/termination/observation component leaves its arguments unchanged, fast_copy equals and hashes like the '
    'original. Every sequence (depth 3, thorough 4; depth 5 over the colliding table queries) over 13 questions that '
    'collide on cache keys is answered identically to the cold answer, from cleared caches and after a prologue that '
    'overflows the 10-entry shortest-path table, and cached results equal the uncached __wrapped__ computation.',
    'Sharing of instance-stateless objects (Floor, Wall, MovingObstacle) is not counted as aliasing.',
    'DESIGN.md 3/C03',
)

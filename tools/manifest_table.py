check(
    'C18',
    'bounded exhaustive enumeration of algebraic law instances on the real geometry classes',
    'Every group/action/transform/area/grid law is evaluated on all orientation triples, all positions of a box '
    'plus extreme coordinates, all transform triples over the box, all areas with bounds in [-2,2] and labelled '
    'grids of all shapes up to 4x4; rotation results are compared with harness index arithmetic, not with the '
    'library tables.',
    'Coordinates are unbounded integers: the box and extremes are a bound, generalisation beyond it is an '
    'assumption (affine operations, no branching on coordinate values).',
    'DESIGN.md 3/C18',
)
check(
    'C08',
    'bounded exhaustive enumeration of states x actions x random outcomes against a reference kinematics model, plus BFS of reachable states of shipped configurations',
    'Every grid with at most k non-floor cells (k<=1 over the full 19-symbol alphabet, k=2 over a reduced one; all '
    'shapes up to 3x3, thorough up to 4x4) x every agent cell x heading x held item x all 8 actions x every built-in '
    'transition function, the 4 shipped chains and the full chain x every resolution of the random picks is executed '
    'on the real code and the resulting pose compared with a reference; the reachable graphs of the shipped '
    'configurations are searched breadth-first with the invariant "agent inside the grid on a non-blocking cell".',
    'Bounds: grid sizes, k, alphabet, the listed chains; reset outcomes complete or deviation-bounded as reported.',
    'DESIGN.md 3/C08',
)
check(
    'C09',
    'bounded exhaustive enumeration of states x actions x random outcomes with an inventory (multiset) oracle and a reference pick-and-drop model; BFS inventory invariants',
    'Same universe as C08 with held items: the multiset of non-floor objects plus the held item is compared before/after '
    'every execution (box opening accounted for), pick-and-drop is compared with its reference, scenery cells are '
    'compared cell by cell; key/door/exit/obstacle counts are invariants over every reachable state of the key-door, '
    'obstacle, teleport configurations.',
    'Bounds as reported in evidence; object alphabet = the 9 concrete types with 2 colours and nested boxes.',
    'DESIGN.md 3/C09',
)
check(
    'C10',
    'bounded exhaustive enumeration of door/box/held-item/pose/action combinations against the actuation table; inductive edge invariant over BFS of key-door configurations',
    'Every door status x colour, box content (nested), held item (none, key of each colour, non-key objects), agent '
    'pose relative to the door/box and action is executed through every built-in function and chain; every door/box '
    'cell is compared with the reference table. On every edge of the reachable graph of the key-door configurations '
    'a door status change must be a faced ACTUATE with a matching key; the agent is never beyond a non-open door.',
    'Bounds as reported; the history property is established inductively over explored edges from LOCKED initial doors.',
    'DESIGN.md 3/C10',
)
check(
    'C11',
    'complete enumeration of every random outcome (scripted ChoiceRng choice tree) per layout, compared as outcome SETS with an order-agnostic nondeterministic reference model; numpy conformance replay',
    'For every obstacle layout (<=3 obstacles, <=2 other cells, shapes up to 3x3 and 3x4/4x3) the set of final grids '
    'over all random resolutions (obstacle identity tracked) must equal what the rules allow: contained in the union '
    'over processing orders and containing all outcomes of at least one order. For every telepod layout (<=4 telepods, '
    '2 colours) and agent cell the outcome set equals the other same-coloured telepods; unpaired telepods do not move '
    'the agent and do not raise. Each layout is also replayed with real numpy seeds through a recording proxy.',
    'The scripted generator models choice/integers/shuffle/random only; bound to numpy by conformance replays.',
    'DESIGN.md 3/C11',
)
check(
    'C12',
    'bounded exhaustive enumeration of (state, action, next state) triples against per-component reference formulas; BFS edge oracle over shipped configurations',
    'Every built-in reward and termination component (default and non-default parameters, called directly and through '
    'factory(name, **kw)) is evaluated on every triple of (a) the E1 universe with next states produced by the real '
    'full chain under every random outcome and (b) all ordered pairs of a small state universe x all actions, and '
    'compared with an independent reference; determinism and no use of the rng argument are checked; reduce_sum / '
    'reduce_any / reduce_all over all subsets of <=3 parts equal the sum/any/all of the parts; on every explored edge '
    'of the shipped configurations the environment reward equals the sum of the reference components named in the '
    'YAML, done equals the reference termination and the exit reward is paid exactly when exit-termination fires.',
    'Documented preconditions honoured (exactly one target object for distance rewards, a beacon for the memory reward).',
    'DESIGN.md 3/C12',
)
check(
    'C01',
    'bounded exhaustive enumeration of states x actions x random outcomes through a real GridWorld with debug checks on; BFS of all reachable states of shipped configurations; single-fault mutation of space members',
    'Every state of the E1 universe (agent on every cell incl. edges facing outward, any held item, unpaired telepods, '
    'nested boxes) x all actions x every built-in transition function alone and the full chain x every random outcome is '
    'stepped through GridWorld.functional_step: no exception, next state in the reference state space, finite real '
    'reward, boolean termination (reduce_any and reduce_all), input unmodified; observations of all four observation '
    'functions lie in the declared observation space; actions outside a restricted action space (and non-actions) '
    'raise ValueError and change neither state nor generator; StateSpace/ObservationSpace.contains agree with a '
    'reference predicate on every universe state and all its single-fault mutants; every reachable state of the '
    'shipped configurations is searched breadth-first for exceptions and membership failures.',
    'Compositions limited to the stated alphabet of built-in components; custom components out of scope.',
    'DESIGN.md 3/C01',
)
check(
    'C03',
    'bounded exhaustive enumeration with deep-fingerprint / object-identity / differential-mutation oracles; exhaustive enumeration of cache histories (operation sequences) against cold answers',
    'For every universe state, action, chain and outcome: the input fingerprint is unchanged, ids of all mutable '
    'components of state and next state are disjoint, scrambling either afterwards leaves the other unchanged, every '
    'reward/termination/observation component leaves its arguments unchanged, fast_copy equals and hashes like the '
    'original. Every sequence (depth 3, thorough 4; depth 5 over the colliding table queries) over 13 questions that '
    'collide on cache keys is answered identically to the cold answer, from cleared caches and after a prologue that '
    'overflows the 10-entry shortest-path table, and cached results equal the uncached __wrapped__ computation.',
    'Sharing of instance-stateless objects (Floor, Wall, MovingObstacle) is not counted as aliasing.',
    'DESIGN.md 3/C03',
)
check(
    'C05',
    'bounded exhaustive enumeration of labelled grids x poses x view areas x observation functions against a reference rigid transform',
    'Labelled grids (every cell a distinct object, so "the object at world cell q" is unambiguous) of every shape '
    'H,W in 1..4 (thorough 1..5, non-square included) with every subset of up to 1-3 opaque cells x every agent cell x '
    '4 headings x 193 view areas (symmetric and not, plus the shipped 7x7 view) x the four observation functions: '
    'every observation cell is Hidden or equal to the object at the world cell given by the reference transform, '
    'out-of-grid cells are Hidden, shape/anchor/heading/held item as specified, fully_transparent shows every in-grid '
    'cell; the stochastic function is run with two extreme scripted draws and real numpy seeds.',
    'partially_occluded only with the agent on the bottom view row (documented precondition).',
    'DESIGN.md 3/C05',
)
check(
    'C06',
    'complete enumeration of all Wall/Floor opacity patterns of small views and worlds; reference flood fill, monotonicity and replacement (non-interference) oracles',
    'All 2^(h*w) opacity patterns of views up to 3x5/4x3 (thorough 4x5) for partially_occluded (every bottom-row '
    'anchor) and raytracing (every origin): own cell visible, every visible cell linked to the agent by adjacent '
    'transparent visible cells, opening a visible opaque cell never hides a visible cell. All Wall/Floor worlds 2x3, '
    '3x2, 3x3, 2x4, 4x2, 1x5 x agent on every floor cell x headings x areas: the shown cells satisfy the chain law and '
    'replacing any hidden / out-of-view world cell by any of 5 objects leaves the observation unchanged. Stochastic '
    'variant: extreme scripted draws give exactly the deterministic set and the every-ray-lit set; numpy seeds lie between.',
    'The u == 0.0 draw (measure zero) is not modelled; stochastic lower bound uses the library ray fan (verified by C19).',
    'DESIGN.md 3/C06',
)
check(
    'C07',
    'bounded exhaustive enumeration of labelled grids x poses x areas x deterministic observation functions compared across all four world rotations (harness index arithmetic)',
    'For every labelled grid (shapes 1..4 x 1..4, opaque subsets), pose, view area and deterministic observation '
    'function, the observation of the world rotated by 1, 2 and 3 quarter turns (grid and pose rotated together by the '
    "harness's own index formula, not by Grid.__mul__) equals the observation of the original.",
    'Bounds as reported.',
    'DESIGN.md 3/C07',
)
check(
    'C19',
    'complete enumeration of areas x origins x rays; exhaustive cache-history sequences',
    'Every area of size 1..7 x 1..7 (thorough 1..9) at two offsets x every origin x every ray of the fan: starts at the '
    'origin, stays inside, no repeats, 8-adjacent steps, ends on the border; the fan covers every cell; cached == '
    'uncached after all query sequences up to length 4 over 5 colliding queries; unobstructed ray-traced visibility '
    'is all-true; two computations agree.',
    'Areas beyond the bound are not covered.',
    'DESIGN.md 3/C19',
)
check(
    'C13',
    'exhaustive exploration of each reset function\'s random-choice tree (scripted ChoiceRng, complete or deviation-bounded) over a parameter grid, with a well-formedness oracle; numpy conformance replays',
    'For the 8 built-in reset functions and a parameter grid (shapes from 1x1 to 9x9 / 11x11 square and not, layouts, '
    'obstacle and river counts incl. negative and too many, colour sets with and without NONE, beacon/exit counts, '
    'flags, plus all shipped points) every random outcome is executed when the point has few enough, otherwise every '
    'outcome with at most 2 non-default draws: the result must be a well-formed initial state (shape, wall boundary, '
    'agent placement, inventory per function) or ValueError - any other exception or a malformed state is a '
    'violation; shipped points must succeed. Real numpy seeds are replayed through the scripted generator.',
    'Which unshipped points are valid is not decided by the oracle. Bounds reported in evidence.',
    'DESIGN.md 3/C13',
)
check(
    'C14',
    'exhaustive enumeration of initial states (reset choice tree) followed by explicit-state search of the real functional_step graph with backward closure from the goal; witness replay through the stateful interface',
    'Every explored initial state of every valid parameter point (shapes 3x3..7x7 / 9x9 and all shipped points) is '
    'decided winnable by searching all histories of the real step function (random dynamics outcomes as branches, '
    'terminal states not expanded), sharing one explored graph per static grid; one witness per grid is replayed '
    'through env.reset/step. Unwinnable memory_rooms states whose goal is reachable once the other exits are treated '
    'as floor are the recorded known finding F7; anything else is a violation.',
    'Dynamics per reset function = chain and termination of the shipped configuration using it; <=2 obstacles.',
    'DESIGN.md 3/C14',
)
check(
    'C15',
    'bounded exhaustive enumeration of spaces x members x representations with containment oracle; BFS over shipped configurations converting every reachable state/observation',
    'For type subsets (sizes 1-3, the shipped sets, all 9; thorough all 511) x colour subsets x grid/view shapes x '
    '{default, no-overlap, compact} x {state, observation}: every admitted object at every cell, every agent pose and '
    'every held item is converted; each key must lie in its declared Space (shape, dtype class, bounds) and in the '
    'gym-layer Dict space; state representations of spaces with Box must raise ValueError; every reachable '
    'state/observation of the shipped configurations is converted under all representations.',
    'Grid shapes >= 2x2, view shapes of odd width (quantifier of the property).',
    'DESIGN.md 3/C15',
)
check(
    'C16',
    'bounded exhaustive enumeration of members with a per-object code table, positional comparison and exhaustive pairwise injectivity by bucketing on the byte image',
    'For each space and encoding the per-object code table is extracted and checked (default = index triple; '
    'no-overlap channels pairwise disjoint; compact consecutive from zero; distinct objects have distinct codes); for '
    'every member (every object at every cell, every pose, held items, and all members with 2 non-default cells on '
    'selected shapes) each grid entry equals the code of the object in that cell, the agent marker is one-hot at the '
    'agent cell, the item channel is the held object code; two members share a representation iff they are equal, '
    'copies equal and hash alike.',
    'Injectivity decided by a 128-bit digest of the byte image over the enumerated universe.',
    'DESIGN.md 3/C16',
)
check(
    'C02',
    'exhaustive enumeration of action trees, of all interleavings (merges) of per-environment operation lists, and of all iteration orders of set-typed parameters; cross-process digest comparison over PYTHONHASHSEED values',
    'Twin environments (same data, same seed) are compared at every node of the complete action tree to depth 2-3 '
    '(thorough 3-4) and along shortest paths to every reachable cell, together with a debug-flag-off twin and a '
    'tripwire that detects any draw from / perturbation of the library generator, numpy global state or the random '
    'module after every operation; all 25 200 merges of the operation lists of two equally seeded environments, an '
    'unseeded one and global-noise operations must leave each seeded history equal to its solo run; set-typed '
    'parameters are passed as a set subclass iterating in each of the n! orders; trajectory digests are compared '
    'across fresh interpreter processes with different PYTHONHASHSEED.',
    'Seeds and hash seeds are finite sets rotated by VERIF_SEED; GymEnvironment.seed() out of scope.',
    'DESIGN.md 3/C02',
)
check(
    'C04',
    'exhaustive enumeration of operation sequences (reset / step / reads, inner and outer) replayed against a functionally driven twin with the same seed',
    'All sequences of 3-5 (thorough 4-6) operations over {reset, 3 steps, read observation, read state, read outer '
    'observation, read outer state}, including reads and steps before any reset, on shipped configurations and on a '
    'synthetic configuration whose stepping and observing both consume randomness: after every operation the stateful '
    'state, reward, flag, observation, numeric representations and the generator bit state equal those of a twin '
    'driven only through functional_reset/step/observation (observation computed exactly once per state); repeated '
    'reads consume no randomness; operations before the first reset raise RuntimeError.',
    'Three actions per configuration, finite seed set (rotated by VERIF_SEED).',
    'DESIGN.md 3/C04',
)
check(
    'C20',
    'exhaustive enumeration of gym-level operation sequences (action indices, resets, representation switches) against a twin inner environment',
    'Every shipped configuration wrapped directly and every registered id (through gym.make and through the registered '
    'entry point) is driven with all action-index sequences up to depth 1-3 (thorough 2-4), with a reset inserted at every '
    'position and the observation representation switched at every position, also under GymStateWrapper; every returned '
    'observation/state, reward, flag and info is compared with a twin inner environment (same file, same seed) stepped '
    'with action_space.actions[i]; outputs must lie in the advertised spaces, which must follow representation switches.',
    'seed()/render() out of scope in this image; gym.make with disable_env_checker=True.',
    'DESIGN.md 3/C20',
)
check(
    'C17',
    'product (lockstep) exploration of each built configuration against an independently hand-assembled environment over complete action trees; exhaustive single-point corruption of every node of every configuration tree; exhaustive registry enumeration',
    'Packaged copies are byte-identical, the id table is a bijection consistent with each id\'s name and size and every '
    'registered spec resolves to its file; every shipped configuration (yaml/, the coin example) and a non-square '
    'variant of it, built through factory_env_from_data and factory_env_from_yaml, runs in lockstep (all action '
    'sequences to depth 2-3, thorough 3-4, several seeds; states, observations, rewards, flags, spaces) with an '
    'environment assembled by an independent assembler; building leaves the tree unchanged and is repeatable; for '
    'each of the 45 registered component names factory(name, **kw) equals the function called with the accepted '
    'parameters, ignores unaccepted ones and raises ValueError for missing required ones / unknown names; every '
    'single-point corruption (delete key, rename component, malformed shape/colour/action/object) at every node is '
    'rejected with SchemaError/ValueError or - when only an optional/unaccepted parameter vanished - builds the '
    'environment the assembler builds from the same tree.',
    'YAML parsed by the strict subset shim when PyYAML is absent; areas and bool-for-int outside the operator alphabet.',
    'DESIGN.md 3/C17',
)

# pid, technique, level text, level note, design ref -- consumed by tools/gen_manifest.py
COMMON_NOTE = (' Exploration jobs run in freshly forked processes; a case failing only after the preceding cases of its job is '
               'reported with the job as replay (re-run in a new interpreter). Bounds completed and caps hit are in the evidence file. '
               'Thorough tier: deeper bounds for C04, C06, C08, C11, C13, C16-C20; for the other checks the thorough command runs the '
               'quick bounds on a second seed set (DESIGN.md 8.11), figures in parentheses marked "thorough" describe bounds present '
               'in the code but not used by a registered command.')

check(
    'C01',
    'bounded exhaustive enumeration of states x actions x random outcomes through a real GridWorld (debug checks on); BFS of reachable states of shipped configurations incl. hidden-attribute keys and several lineages; single-fault and in-place mutation of space members',
    'Every universe state (agent on every cell incl. edges facing outward, any held item, unpaired telepods, three/four telepods of a '
    'colour, nested boxes) x all actions x every built-in transition function alone, all ordered pairs (thorough) and the full chain x '
    'every random outcome is stepped through GridWorld.functional_step: no exception, next state in the reference state space, finite '
    'real reward, boolean termination (any/all), input unmodified; observations of all four observation functions lie in the declared '
    'space and leave the state unchanged; out-of-space actions and non-actions raise ValueError under both debug-flag values and '
    'change neither state, generator nor the memoised (stochastic) observation; StateSpace/ObservationSpace.contains agree with a '
    'reference predicate on every state, all single-fault mutants and after in-place changes of one object; every reachable state '
    'of the shipped configurations is searched for exceptions and membership failures.',
    'Compositions limited to the stated alphabet of built-in components; custom components out of scope.' + COMMON_NOTE,
    'DESIGN.md 3/C01, 8',
)
check(
    'C02',
    'exhaustive enumeration of action trees and directed paths, of all interleavings (merges) of per-environment operation lists, of all iteration orders of set-typed parameters; cross-process digest comparison over PYTHONHASHSEED values and process histories',
    'Twin environments (same data, same seed; seeds include 0) are compared at every node of the complete action tree to depth 2-3 '
    '(thorough 3-4) and along shortest paths to every reachable cell, with a debug-flag-off twin (also with observations read only '
    'at the end), a used-then-reseeded twin and a tripwire on the library generator / numpy global / random module after every '
    'operation; all 25 200 merges of two equally seeded environments, an unseeded environment of another layout that reads '
    'observations, and global-noise operations leave each seeded history equal to its solo run; set-typed parameters are passed as '
    'a set subclass iterating in each of the n! orders; trajectory digests are compared across fresh interpreter processes with '
    'different PYTHONHASHSEED and different orders of the other configurations run in the process.',
    'Seeds and hash seeds are finite sets rotated by VERIF_SEED; GymEnvironment.seed() out of scope.' + COMMON_NOTE,
    'DESIGN.md 3/C02, 8',
)
check(
    'C03',
    'bounded exhaustive enumeration with deep-fingerprint / object-identity / differential-mutation oracles; exhaustive enumeration of cache histories; BFS comparing every lineage object with a freshly built equal state',
    'For every universe state, action, chain and outcome: input fingerprint unchanged, ids of mutable components of state and next '
    'state disjoint, scrambling either leaves the other unchanged, the returned state equals and hashes like a fresh build (hashes '
    'primed beforehand), every reward/termination/observation component leaves its arguments unchanged, answers follow the value of '
    'an object changed in place (observations, representations), fast_copy equals/hashes like the original. Every sequence (depth 3, '
    'thorough 4; depth 5 over the colliding table queries) over 14 questions colliding on cache keys equals the cold answer (all '
    'functools caches of the library cleared generically), also after a prologue overflowing the 10-entry table. Over the reachable '
    'graphs of shipped configurations every object reached through a history answers like a freshly built equal state; the '
    'functional observation is independent of earlier stateful use.',
    'Every object with an instance dictionary counts as a mutable component (Floor and Wall included); sharing is also judged between a '
    'produced state and ITS successor, and the step is compared with the in-place chain under the same random script.' + COMMON_NOTE,
    'DESIGN.md 3/C03, 8',
)
check(
    'C04',
    'exhaustive enumeration of operation sequences (outer/inner reset and step, rejected step, reads, in-place turn + functional observation) replayed against a functionally driven twin with the same seed',
    'All sequences of depth-1 over 11 operations and of full depth (3-5, thorough 4-6) over the 8 core operations - outer reset/step, '
    'inner step/reset driven directly, a rejected out-of-space step, reads of inner/outer observation and state, in-place turn of '
    'the current state followed by functional_observation - including operations before any reset, on shipped configurations, '
    'empty 4x4 (episodes continue past termination) and a synthetic configuration whose stepping and observing both consume '
    'randomness: after every operation state, reward, flag, observation, numeric representations and generator bit state equal '
    'those of a twin driven only through the functional interface.',
    'Three actions per configuration, finite seed set (rotated by VERIF_SEED).' + COMMON_NOTE,
    'DESIGN.md 3/C04, 8',
)
check(
    'C05',
    'bounded exhaustive enumeration of labelled grids x poses x view areas x observation functions against a reference rigid transform, on one state object per case incl. in-place changes',
    'Labelled grids (every cell a distinct object) of every shape H,W in 1..4 (thorough 1..5) with opaque subsets x every agent cell x '
    '4 headings x 193 view areas x the four observation functions evaluated in turn on ONE state object (transparent first and again '
    'last): every cell is Hidden or equal to the object at the world cell given by the reference transform, shape/anchor/heading/held '
    'item (also non-holdable ones) as specified, the state unchanged afterwards; after in-place swap / cell assignment on the view '
    'rectangle corners / pose change the new observations are sound for the new value.',
    'partially_occluded only with the agent on the bottom view row (documented precondition).' + COMMON_NOTE,
    'DESIGN.md 3/C05, 8',
)
check(
    'C06',
    'complete enumeration of all opacity patterns of small views and worlds (Wall/Floor, closed/open-door and mixed encodings); reference flood fill, monotonicity and replacement (non-interference) oracles; large views at ray-count corners',
    'All 2^(h*w) opacity patterns of views from 1x1 up to 3x5/4x3 (thorough 4x5) incl. one- and two-column views for '
    'partially_occluded (every bottom-row anchor) and raytracing (every origin), each in three object encodings that must agree: own '
    'cell visible, every visible cell linked to the agent by adjacent transparent visible cells, opening a visible opaque cell never '
    'hides a cell; views with 128/256/512 rays; all Wall/Floor worlds up to 3x3 and elongated ones x poses x areas: shown cells obey '
    'the chain law and replacing any hidden/out-of-view cell changes nothing; stochastic variant bounded by extreme scripted draws.',
    'The u == 0.0 draw (measure zero) is not modelled; stochastic lower bound uses the library ray fan (verified by C19).' + COMMON_NOTE,
    'DESIGN.md 3/C06, 8',
)
check(
    'C07',
    'bounded exhaustive enumeration of labelled grids x poses x areas x deterministic observation functions compared across all four world rotations (harness index arithmetic), in both function orders, plus in-place pose/grid changes',
    'For every labelled grid (shapes 1..4 x 1..4, opaque subsets), pose, area and deterministic function (evaluated in registry order and '
    'again in the opposite order) the observation of the world rotated by 1, 2, 3 quarter turns equals the original; a state object '
    'turned/moved/written in place is observed like a freshly built equal state.',
    'Bounds as reported.' + COMMON_NOTE,
    'DESIGN.md 3/C07, 8',
)
check(
    'C08',
    'bounded exhaustive enumeration of states x actions x random outcomes against a reference kinematics model (in place and through transition_with_copy); BFS of shipped configurations with an edge oracle, hidden-attribute keys and several lineages; stateful and long-corridor walks',
    'Every grid with <=k non-floor cells x every agent cell x heading x held item x 8 actions x every built-in transition function, the '
    'shipped chains and the full chain x every random outcome: resulting pose compared with the reference; every explored edge of the '
    'reachable graphs of shipped configurations obeys the reference kinematics and keeps the agent on a free cell; the stateful '
    'interface is driven along shortest paths to every cell and past termination; reduced action lists; corridors of 131 and 260 '
    'cells walked end to end.',
    'Bounds: grid sizes, k, alphabet, the listed chains; reset outcomes complete or deviation-bounded as reported.' + COMMON_NOTE,
    'DESIGN.md 3/C08, 8',
)
check(
    'C09',
    'bounded exhaustive enumeration of states x actions x random outcomes with an inventory (multiset) oracle and a reference pick-and-drop model; BFS inventory invariants',
    'Same universe as C08 with held items and nested boxes: the multiset of non-floor objects plus the held item (box contents '
    'included) is compared before/after every execution, pick-and-drop with its reference, scenery cell by cell; chains run through '
    'transition_with_copy; inventories are invariants over every reachable state of key-door, obstacle, teleport configurations.',
    'Object alphabet = the 9 concrete types with 2 colours and nested boxes.' + COMMON_NOTE,
    'DESIGN.md 3/C09, 8',
)
check(
    'C10',
    'bounded exhaustive enumeration of door/box/held-item/pose/action combinations against the actuation table (in place, via copy, via the stateful step, after re-posing); inductive edge invariant over BFS of key-door configurations',
    'Every door status x colour (incl. colourless), box content (nested), held item (none, keys of each colour, non-key objects, an '
    'instance of a Key subclass), pose and action through every built-in function and chain: every door/box cell compared with the '
    'reference table; two equal doors / boxes through the copy path; env.step on nested boxes; agent re-posed through its transform '
    'attribute after acting; on every reachable edge of key-door configurations a door status change is a faced ACTUATE with a '
    'matching key.',
    'The history property is established inductively over explored edges from LOCKED initial doors.' + COMMON_NOTE,
    'DESIGN.md 3/C10, 8',
)
check(
    'C11',
    'complete enumeration of every random outcome (scripted ChoiceRng choice tree, vectorised draws supported) per layout, compared as outcome SETS with an order-agnostic nondeterministic reference model; numpy conformance replay; lineage and shared-instance cases',
    'For every obstacle layout (<=3 obstacles, <=2 other cells, shapes up to 3x3 and 3x4/4x3) the set of final grids over all random '
    'resolutions (identity tracked) equals what the rules allow for some processing order; for every telepod layout (<=4 telepods, 2 '
    'colours; also one instance in several cells) and agent cell the outcome set equals the other same-coloured telepods; an agent on '
    'any non-telepod object is never displaced; obstacle rules also hold on states reached through a history (obstacles moved, then a '
    'box holding an obstacle opened).',
    'The scripted generator models choice/integers/shuffle/random only; bound to numpy by conformance replays.' + COMMON_NOTE,
    'DESIGN.md 3/C11, 8',
)
check(
    'C12',
    'bounded exhaustive enumeration of (state, action, next state) triples against per-component reference formulas; in-place mutation histories; BFS edge oracle over shipped configurations',
    'Every built-in reward/termination component (default and non-default parameters, direct and through factory) on every triple of '
    'the universe with real next states and on all ordered pairs of a small state universe x all actions; determinism, no use of the '
    'rng argument, value semantics after in-place change of an argument object, memory reward with several exits of the beacon '
    'colour; composites over all subsets of <=3 parts; on every explored edge of the shipped configurations the environment reward '
    'equals the sum of the reference components named in the YAML and the exit reward is paid exactly when exit-termination fires.',
    'Documented preconditions honoured (exactly one target object for distance rewards, a beacon for the memory reward).' + COMMON_NOTE,
    'DESIGN.md 3/C12, 8',
)
check(
    'C13',
    'exhaustive exploration of each reset function\'s random-choice tree (complete or deviation-bounded) over a parameter grid with a well-formedness oracle; reset-mutate-reset histories; debug-flag independence; numpy conformance replays',
    'For the 8 reset functions and a parameter grid (shapes 1x1..9x9 / 11x11, room layouts on sizes up to 40 / 71, counts incl. negative '
    'and too many, colour sets, flags, all shipped points) every random outcome (or all with <=2 non-default draws) yields a '
    'well-formed state or ValueError; the same call after an earlier returned state was scrambled in place returns the same fresh '
    'state sharing no objects; results do not depend on the debug flag; numpy seeds are replayed through the scripted generator.',
    'Which unshipped points are valid is not decided by the oracle.' + COMMON_NOTE,
    'DESIGN.md 3/C13, 8',
)
check(
    'C14',
    'exhaustive enumeration of initial states followed by explicit-state search of the real functional_step graph with backward closure from the goal; witness replay through the stateful interface of an environment object that already ran episodes',
    'Every explored initial state of every valid parameter point (shapes 3x3..7x7 / 9x9, obstacle rivers with bump termination, all '
    'shipped points) is decided winnable by searching all histories of the real step function (random outcomes as branches, terminal '
    'states not expanded), one graph per static grid; one witness per grid is replayed through env.reset/step after earlier aborted '
    'episodes on the same object. Unwinnable memory_rooms states whose goal is reachable once the other exits are floor are the '
    'recorded known finding F7; anything else is a violation.',
    'Dynamics per reset function = chain and termination of the shipped configuration using it; <=2 obstacles.' + COMMON_NOTE,
    'DESIGN.md 3/C14, 8',
)
check(
    'C15',
    'bounded exhaustive enumeration of spaces x members x representations with containment oracle; re-check of earlier advertised spaces; gym-layer switching walk; BFS over shipped configurations converting every reachable state/observation',
    'For type subsets (sizes 1-3, shipped sets, all 9; thorough all 511) x colour subsets x grid/view shapes x 3 encodings x '
    '{state, observation}: every admitted object at every cell, every agent pose (also in observations), every held item lies in the '
    'declared Space and the gym-layer Dict space; spaces advertised earlier still contain later conversions after representations of '
    'other spaces (and a same-named class) were created; at the gym layer current observation/state lie in the advertised space after '
    'every ordered representation switch; every reachable state/observation of shipped configurations is converted.',
    'Grid shapes >= 2x2, view shapes of odd width (quantifier of the property).' + COMMON_NOTE,
    'DESIGN.md 3/C15, 8',
)
check(
    'C16',
    'bounded exhaustive enumeration of members with a per-object code table, positional comparison, exhaustive pairwise injectivity by bucketing on the byte image (library == decides equality), aliasing and in-place-history checks',
    'For each space (incl. type lists naming Hidden/NoneGridObject/duplicates, a registered Key subclass, boxes with different '
    'contents) and encoding: code table (default = index triple; no-overlap channels disjoint; compact consecutive from zero; distinct '
    'objects distinct codes); each grid entry equals the code of its object, agent marker one-hot at the agent cell (any cell), item '
    'channel = held code; members share a representation iff the library calls them equal; copies equal/hash alike, also after '
    'in-place door opening; arrays returned earlier are not overwritten later.',
    'Injectivity decided by a 128-bit digest of the byte image over the enumerated universe.' + COMMON_NOTE,
    'DESIGN.md 3/C16, 8',
)
check(
    'C17',
    'product (lockstep) exploration of each built configuration and of systematic valid variants against an independently hand-assembled environment; exhaustive single-point corruption of every node of every configuration tree under both debug-flag values; exhaustive registry enumeration',
    'Packaged copies byte-identical, id table a bijection consistent with name and size; every shipped configuration and its variants '
    '(non-square shape/layout, reversed and partial action lists, differing observation_space section, nested visibility spec) built '
    'through both builders run in lockstep (action trees + directed paths with object actions, contains-probes, spaces) with an '
    'independent assembler; inputs unchanged, building repeatable; 45 registered names: factory(name, **kw) equals the function with '
    'accepted / zero-valued parameters, ignores unaccepted ones, raises for missing/unknown under both debug flags; every '
    'single-point corruption (delete key, rename, malformed shape/colour/action/object, zero/flip numeric leaves) is rejected with '
    'SchemaError/ValueError or builds what the assembler builds.',
    'YAML parsed by the strict subset shim when PyYAML is absent; areas and bool-for-int outside the operator alphabet.' + COMMON_NOTE,
    'DESIGN.md 3/C17, 8',
)
check(
    'C18',
    'bounded exhaustive enumeration of algebraic law instances on the real geometry classes, incl. mutation/aliasing histories, one process per heading for the area law',
    'Group/action/transform/area/grid laws on all orientation triples, all positions of a box plus extreme coordinates, all transform '
    'triples, all areas with bounds in [-2,2], labelled grids up to 4x4; rotation results compared with harness index arithmetic; '
    'negation and identity-composition under in-place mutation (no aliasing, no stale inverse); every pose x area product evaluated '
    'in one process per heading (colliding cache keys).',
    'Coordinates are unbounded integers: the box and extremes are a bound; generalisation beyond is an assumption.' + COMMON_NOTE,
    'DESIGN.md 3/C18, 8',
)
check(
    'C19',
    'complete enumeration of areas x origins x rays; exhaustive cache-history sequences; cache-pressure job with second pass; large unobstructed views',
    'Every area 1..7 x 1..7 (thorough 1..9) at two offsets x every origin x every ray: starts at the origin, stays inside, no repeats, '
    '8-adjacent steps, ends on the border; fan covers every cell; cached == uncached after all query sequences up to length 4 over 5 '
    'colliding queries, for all origins of an area in one process, and when asked again after more than 128 other queries; '
    'unobstructed ray-traced visibility all-true incl. views with 256/512 rays.',
    'Areas beyond the bound are not covered.' + COMMON_NOTE,
    'DESIGN.md 3/C19, 8',
)
check(
    'C20',
    'exhaustive enumeration of gym-level operation sequences (action indices, resets, representation switches) against a twin inner environment; output snapshots and aliasing checks; two environments per id',
    'Every shipped configuration wrapped directly and every registered id (gym.make and entry point) driven with all action-index '
    'sequences to depth 1-3 (thorough 2-4) with a reset at every position and observation/state representation switches at every '
    'position, also under GymStateWrapper; every returned value (snapshotted at once) and the observation/state properties equal the '
    'twin\'s, lie in the advertised spaces which follow switches, and are not overwritten later; a state wrapper without a state '
    'representation fails loudly; two live environments of one id are independent.',
    'seed()/render() out of scope in this image; gym.make with disable_env_checker=True.' + COMMON_NOTE,
    'DESIGN.md 3/C20, 8',
)

#!/usr/bin/env python3
"""tools/seed_eval.py <seed dir> <letter> <seed id> <Cxx> [<Cyy> ...]

Validates a seeded property-breaking change and runs checks against it, all in a scratch copy of /repo:
  1. demo passes on the unchanged scratch copy; 2. patch applies; 3. the repository's test suite still has
  its 1017 passes; 4. demo fails with the patch; 5. each named check is run with VERIF_REPO=<scratch>.
Writes /verif/seeded/<seed id>/{patch.diff, demo.py, meta.json}.  The scratch copy is removed afterwards.
"""
import json
import os
import re
import shutil
import subprocess
import sys
import time

src, letter, sid = sys.argv[1:4]
checks = sys.argv[4:]
tier = os.environ.get('TIER', 'quick')
scratch = f'/var/tmp/gv-seed-{os.getpid()}'
out = f'/var/tmp/gv-verif-out/seed-{sid}'
shutil.rmtree(scratch, ignore_errors=True)
os.makedirs(scratch)
os.makedirs(out, exist_ok=True)
subprocess.run('git ls-files -z | xargs -0 cp --parents -t ' + scratch, shell=True, cwd='/repo', check=True)
patch = os.path.join(src, f'{letter}.diff')
demo = os.path.join(src, f'demo_{letter}.py')


def run(cmd, **kw):
    return subprocess.run(cmd, shell=True, cwd=scratch, capture_output=True, text=True, **kw)


meta = {'seed': sid, 'source_property': os.path.basename(src.rstrip('/')), 'checks_run': {}}
r = run(f'/venv/bin/python {demo}')
meta['demo_on_clean_exit'] = r.returncode
r = run(f'patch -p1 -s < {patch}')
meta['patch_applies'] = r.returncode == 0
if not meta['patch_applies']:
    print('PATCH FAILED', r.stdout, r.stderr)
r = run('/venv/bin/python -m pytest -q -p no:cacheprovider tests 2>&1 | tail -3')
m = re.search(r'(\d+) passed', r.stdout)
meta['tests_passed'] = int(m.group(1)) if m else None
m = re.search(r'(\d+) failed', r.stdout)
meta['tests_failed'] = int(m.group(1)) if m else 0
r = run(f'/venv/bin/python {demo}')
meta['demo_with_patch_exit'] = r.returncode
meta['demo_tail'] = (r.stdout + r.stderr)[-400:]
meta['valid'] = bool(meta['patch_applies'] and meta['demo_on_clean_exit'] == 0 and meta['demo_with_patch_exit'] != 0
                     and meta['tests_passed'] == 1017 and meta['tests_failed'] == 105)
for c in checks:
    t0 = time.time()
    env = dict(os.environ, VERIF_REPO=scratch, VERIF_OUT=out)
    r = subprocess.run(['./check', c, '--tier', tier], cwd=os.environ.get('VERIF_DIR', '/verif'), capture_output=True, text=True, env=env)
    lines = r.stdout.splitlines()
    first = ''
    for i, l in enumerate(lines):
        if l.startswith('VIOLATION'):
            first = lines[i + 1].strip()[:300] if i + 1 < len(lines) else ''
            break
    meta['checks_run'][c] = {'exit': r.returncode, 'violations': sum(1 for l in lines if l.startswith('VIOLATION')),
                             'first': first, 'wall_s': round(time.time() - t0, 1), 'tier': tier,
                             'stderr_tail': r.stderr[-300:] if r.returncode not in (0, 1) else ''}
meta['caught_by'] = [c for c, v in meta['checks_run'].items() if v['exit'] == 1 and v.get('violations', 1) > 0]
dst = os.path.join(os.environ.get('SEED_META_DIR', '/verif/seeded'), sid)
os.makedirs(dst, exist_ok=True)
shutil.copy(patch, os.path.join(dst, 'patch.diff'))
shutil.copy(demo, os.path.join(dst, 'demo.py'))
old = {}
if os.path.exists(os.path.join(dst, 'meta.json')):
    old = json.load(open(os.path.join(dst, 'meta.json')))
    for k in ('breaks', 'needs', 'description', 'baseline'):
        if k in old:
            meta[k] = old[k]
    prev = old.get('checks_run', {})
    prev.update(meta['checks_run'])
    meta['checks_run'] = prev
    meta['caught_by'] = [c for c, v in prev.items() if v['exit'] == 1 and v.get('violations', 1) > 0]
json.dump(meta, open(os.path.join(dst, 'meta.json'), 'w'), indent=1, sort_keys=True)
shutil.rmtree(scratch, ignore_errors=True)
print(sid, 'valid' if meta['valid'] else 'INVALID', 'tests', meta['tests_passed'], '/', meta['tests_failed'], 'demo', meta['demo_on_clean_exit'], '->',
      meta['demo_with_patch_exit'], '| caught by', meta['caught_by'], '| not by', [c for c in checks if c not in meta['caught_by']])
for c in checks:
    v = meta['checks_run'][c]
    print('   ', c, 'exit', v['exit'], v['first'][:200], v['stderr_tail'][-150:])

#!/usr/bin/env python3
"""tools/mkpatch.py <out.diff> <repo-relative-file> <old> <new>  -- builds a unified diff replacing the first occurrence"""
import difflib, sys
out, rel, old, new = sys.argv[1:5]
src = open('/repo/' + rel).read()
assert old in src, 'old text not found'
dst = src.replace(old, new, 1)
d = difflib.unified_diff(src.splitlines(True), dst.splitlines(True), 'a/' + rel, 'b/' + rel)
open(out, 'w').write(''.join(d))
